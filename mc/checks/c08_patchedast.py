"""C08 - the source-annotated syntax tree is lossless and its regions are exact.

Space: one canonical snippet per construct of the 3.12 grammar (statements, expressions,
patterns, comprehensions, argument forms, decorators, async, type parameters, operators,
literal spellings, f-strings) composed to depth 2 (every simple statement inside every
compound statement; every expression atom inside every expression context) x layout
deviations (trailing comment containing brackets/quotes/keywords, redundant parentheses,
line break inside brackets, backslash continuation, semicolon joining, tab indentation,
blank/comment lines, non-ASCII).  Oracle: CPython's ast positions and re-parsing."""
import ast
import itertools
import os
import textwrap

from rope.refactor import patchedast

from ..core import Check, h8

EXPRS = [
    ("name", "a"), ("attr", "a.b"), ("call", "f(a, b)"), ("call-kw", "f(a, k=b)"), ("call-star", "f(*a, **b)"), ("subscript", "a[0]"), ("slice", "a[1:2]"),
    ("slice-step", "a[::2]"), ("slice-tuple", "a[1:2, ::3]"), ("binop", "a + b"), ("binop-prec", "a + b * c"), ("pow", "a ** b"), ("unary", "-a"), ("not", "not a"),
    ("boolop", "a and b or c"), ("compare", "a < b"), ("compare-chain", "a < b <= c"), ("not-in", "a not in b"), ("is-not", "a is not b"),
    ("ifexp", "a if b else c"), ("lambda", "lambda x, y=1: x"), ("lambda-noargs", "lambda: 0"), ("tuple", "(a, b)"), ("tuple-1", "(a,)"), ("list", "[a, b]"),
    ("set", "{a, b}"), ("dict", "{a: b, **c}"), ("listcomp", "[x for x in a if x]"), ("setcomp", "{x for x in a}"), ("dictcomp", "{k: v for k, v in a}"),
    ("genexp", "(x for x in a)"), ("nested-comp", "[y for x in a for y in x]"), ("await", None), ("yield", None), ("starred", "[*a, b]"),
    ("walrus", "(n := a)"), ("int", "1"), ("int-underscore", "1_000"), ("int-bin", "0b101"), ("int-oct", "0o17"), ("int-hex", "0XFF"), ("float", "1.5"),
    ("float-exp", "1e-3"), ("float-dot", "1."), ("float-leading-dot", ".5"), ("imag", "2j"), ("str", "'s'"), ("str-dq", '"d"'), ("str-raw", "r'\\n'"),
    ("bytes", "b'x'"), ("bytes-raw", "rb'x'"), ("str-triple", '"""t"""'), ("str-triple-doubled-quote", '"""a "" b\nc"""'), ("str-triple-sq-doubled", "'''it''s\nx'''"), ("fstr-hash", "f'#{a:02x} #{b}'"), ("str-concat", "'a' 'b'"), ("fstr", "f'{a}'"), ("fstr-conv", "f'{a!r}'"),
    ("fstr-spec", "f'{a:>4}'"), ("fstr-eq", "f'{a=}'"), ("fstr-nested", "f'{a:{b}}'"), ("fstr-text", "f'x{a}y{b}z'"), ("ellipsis", "..."), ("none", "None"),
    ("true", "True"), ("paren-expr", "(a + b) * c"), ("call-genexp", "f(x for x in a)"), ("attr-call-chain", "a.b(c).d[0]"), ("unicode-str", "'\u00e9\u20ac'"),
    ("kwsub-not-in", "x not in n"), ("kwsub-not-in-2", "i not in i"), ("kwsub-is-not", "x is not t"), ("kwsub-is-not-2", "n is not o"), ("kwsub-in", "i in n"),
    ("kwsub-is", "s is i"), ("kwsub-or", "o or r"), ("kwsub-and", "a and d"), ("kwsub-not", "not t"), ("kwsub-ifexp", "i if f else e"),
    ("kwsub-lambda", "lambda a: a"), ("kwsub-comp", "[f for f in r if i]"), ("kwsub-mixed", "a if i is not n else o"),
    ("matmul", "a @ b"), ("floordiv", "a // b"), ("shift", "a << 2"), ("bitops", "a & b | c ^ d"), ("invert", "~a"),
]
SIMPLE = [
    ("assign", "x = {e}"), ("multi-assign", "x = y = {e}"), ("tuple-assign", "x, y = {e}, 1"), ("augassign", "x += {e}"), ("annassign", "x: int = {e}"),
    ("ann-only", "x: int"), ("expr-stmt", "{e}"), ("return", None), ("del", "del x, y"), ("pass", "pass"), ("assert", "assert {e}, 'm'"),
    ("raise", "raise E({e})"), ("raise-from", "raise E from {e}"), ("import", "import os, sys as s"), ("import-dotted", "import os.path"),
    ("from-import", "from os import path, sep as p"), ("from-paren", "from os import (path,\n    sep)"), ("from-rel", None), ("from-star", "from os import *"),
    ("global", None), ("break", None), ("star-assign", "x, *y = {e}, 1"), ("attr-assign", "x.y = {e}"), ("subscript-assign", "x[0] = {e}"),
    ("type-alias", "type T = int"), ("str-then-docstring", "x = 'v'\n\"\"\"doc\"\"\""), ("two-strings", "'one'\n'two'"), ("call-then-str", "f('s')\n'doc'"),
]
COMPOUND = [
    ("if", "if a:\n{body}"), ("if-else", "if a:\n{body}\nelse:\n{body}"), ("if-elif", "if a:\n{body}\nelif b:\n{body}\nelse:\n{body}"),
    ("for", "for i in a:\n{body}"), ("for-else", "for i, j in a:\n{body}\nelse:\n{body}"), ("while", "while a:\n{body}"),
    ("while-else", "while a:\n{body}\nelse:\n{body}"), ("try-except", "try:\n{body}\nexcept E as e:\n{body}"),
    ("try-full", "try:\n{body}\nexcept (E, F):\n{body}\nexcept:\n{body}\nelse:\n{body}\nfinally:\n{body}"), ("try-finally", "try:\n{body}\nfinally:\n{body}"),
    ("try-star", "try:\n{body}\nexcept* E:\n{body}"), ("with", "with a as b:\n{body}"), ("with-multi", "with a as b, c:\n{body}"),
    ("with-paren", "with (a as b, c as d):\n{body}"), ("def", "def f(p, q=1, *r, k, **w):\n{body}"), ("def-posonly", "def f(p, /, q):\n{body}"),
    ("def-kwonly", "def f(*, k=1):\n{body}"), ("def-annot", "def f(p: int = 1) -> str:\n{body}"), ("def-decorated", "@dec\n@d2(1)\ndef f():\n{body}"),
    ("async-def", "async def f():\n{body}"), ("class", "class C:\n{body}"), ("class-bases", "class C(B, metaclass=M):\n{body}"),
    ("class-decorated", "@dec\nclass C(B):\n{body}"), ("match", "match a:\n    case 1:\n    {body}\n    case _:\n    {body}"),
    ("match-patterns", "match a:\n    case [x, *y]:\n    {body}\n    case {{'k': v, **r}}:\n    {body}\n    case P(z, w=1) | None as q if q:\n    {body}"),
    ("def-generic", "def f[T](p: T) -> T:\n{body}"), ("class-generic", "class C[T]:\n{body}"),
    ("async-for-with", "async def f():\n    async for i in a:\n    {body}\n    async with a as b:\n    {body}"),
]
EXPR_CTX = [("plain", "{e}"), ("binop-left", "{e} + z"), ("call-arg", "g({e})"), ("parens", "({e})"), ("ifexp-test", "y if {e} else z"),
            ("list-item", "[z, {e}]"), ("kw-value", "g(k={e})"), ("subscript-index", "z[{e}]"), ("comp-elt", "[{e} for q in z]"), ("fstring-field", "f'{{{e}}}'")]
LAYOUTS = ["none", "trailing-comment", "comment-line-before", "redundant-parens", "bracket-linebreak", "backslash", "semicolon", "tab-indent", "blank-lines",
           "two-comments-quoting-the-code", "bracket-two-comments-quoting-the-code", "after-formfeed-line", "after-string-with-line-separators"]


def ind(s, n=4):
    return textwrap.indent(s, " " * n)


def apply_layout(stmt, layout, is_simple, expr=None):
    if layout == "none":
        return stmt
    if layout == "trailing-comment":
        lines = stmt.split("\n")
        lines[0] += "  # c ) ] } ' \" if"
        return "\n".join(lines)
    if layout == "comment-line-before":
        return "# lead ( [\n" + stmt
    if layout == "two-comments-quoting-the-code":
        # the text of the statement's first line occurs again in the second of two comment lines
        return "# first\n# " + stmt.split("\n")[0] + "\n" + stmt
    if layout == "bracket-two-comments-quoting-the-code":
        if expr is None or expr not in stmt:
            return None
        return stmt.replace(expr, "(\n    # first\n    # " + expr.split("\n")[0] + " again\n    " + expr + "\n)", 1)
    if layout == "after-formfeed-line":
        # characters that str.splitlines() treats as line ends but Python does not, before statements that end in strings
        return "# page\n\x0c\n" + stmt + "\ntail = 'end'\nlast = 1"
    if layout == "after-string-with-line-separators":
        return "u = 'a\u2028b\x1cc\x85d'\n" + stmt + "\ntail = 'end'\nlast = 1"
    if layout == "blank-lines":
        return "\n\n" + stmt + "\n\n# tail\n"
    if layout == "semicolon":
        return stmt + "; z = 1" if is_simple and "\n" not in stmt else None
    if layout == "tab-indent":
        return stmt.replace("    ", "\t") if "\n" in stmt else None
    if expr is None:
        return None
    if layout == "redundant-parens":
        return stmt.replace(expr, "((" + expr + "))", 1) if expr in stmt else None
    if layout == "bracket-linebreak":
        return stmt.replace(expr, "(\n    " + expr + "\n)", 1) if expr in stmt else None
    if layout == "backslash":
        return stmt.replace(" = " + expr, " = \\\n    " + expr, 1) if (" = " + expr) in stmt else None
    return None


def wrap_special(kind, e):
    """Snippets that need a particular context."""
    if kind == "return":
        return "def f():\n    return %s" % e
    if kind == "await":
        return "async def f():\n    x = await a"
    if kind == "yield":
        return "def f():\n    x = yield a\n    yield from b"
    if kind == "from-rel":
        return None
    if kind == "global":
        return "def f():\n    global g1, g2\n    def h():\n        nonlocal g3"
    if kind == "break":
        return "for i in a:\n    break\nelse:\n    continue" if False else "for i in a:\n    if i:\n        break\n    continue"
    return None


class C08(Check):
    pid = "C08"
    level = "exploration"
    rule = ("cases = modules built from 86 expression atoms (incl. single-letter names that are substrings of the adjacent keyword) x 10 expression contexts inside `x = ...`, 28 simple statements (with every "
            "expression atom in their hole at depth 1, a fixed atom at depth 2), 28 compound statements with every simple statement "
            "as body, x 13 layout deviations (0 or 1 per module); evaluations = sub-checks per module: annotation succeeds, "
            "write_ast == source, every node with an interpreter position has a region, regions nest, region text == interpreter "
            "segment up to redundant parentheses/blanks (decorators included for definitions), region re-parses to the same node; "
            "non-trivial = modules with a layout deviation or depth-2 composition; distinct by source")
    assumptions = ["CPython 3.12 ast positions (lineno/col_offset/end_*) are the reference for region text",
                   "regions may include redundant enclosing parentheses and surrounding blanks; a definition's region may start at its first decorator"]
    chunksize = 32

    def bound_text(self, tier):
        return "depth 2, one layout deviation"

    def cases(self, tier):
        out = []
        # expressions in contexts
        for ei, (en, e) in enumerate(EXPRS):
            if e is None:
                out.append({"kind": "special", "name": en})
                continue
            for ci in range(len(EXPR_CTX)):
                for li in range(len(LAYOUTS)):
                    out.append({"kind": "expr", "e": ei, "ctx": ci, "layout": li})
        # simple statements with each expression
        for si, (sn, s) in enumerate(SIMPLE):
            if s is None:
                out.append({"kind": "special", "name": sn})
                continue
            es = range(len(EXPRS)) if "{e}" in s else [0]
            for ei in es:
                if EXPRS[ei][1] is None:
                    continue
                for li in (range(len(LAYOUTS)) if ei in (0, 9, 22, 53) else [0]):
                    out.append({"kind": "simple", "s": si, "e": ei, "layout": li})
        # compound x simple body
        for ci in range(len(COMPOUND)):
            for si, (sn, s) in enumerate(SIMPLE):
                if s is None:
                    continue
                for li in range(len(LAYOUTS)):
                    if tier == "quick" and li not in (0, 1, 7) and si not in (0, 6):
                        continue
                    out.append({"kind": "compound", "c": ci, "s": si, "layout": li})
        return out

    def build(self, case):
        k = case["kind"]
        if k == "special":
            return wrap_special(case["name"], "a")
        layout = LAYOUTS[case["layout"]]
        if k == "expr":
            e = EXPRS[case["e"]][1]
            inner = EXPR_CTX[case["ctx"]][1].format(e=e)
            stmt = "x = " + inner
            return apply_layout(stmt, layout, True, e if case["ctx"] == 0 else inner)
        if k == "simple":
            e = EXPRS[case["e"]][1]
            stmt = SIMPLE[case["s"]][1].format(e=e)
            return apply_layout(stmt, layout, True, e if "{e}" in SIMPLE[case["s"]][1] else None)
        if k == "compound":
            body = SIMPLE[case["s"]][1].format(e="a + 1")
            comp = COMPOUND[case["c"]][1]
            src = comp.replace("    {body}", ind(ind(body))).replace("{body}", ind(body)).replace("{{", "{").replace("}}", "}")
            src += "\ntail = 'end'"
            return apply_layout(src, layout, False, "a + 1" if "{e}" in SIMPLE[case["s"]][1] else None)

    def run(self, case):
        res = {"n": 0, "nt": [], "out": {}, "mech": {}, "fails": [], "passfeat": []}
        src = self.build(case)
        if src is None:
            res["n"] = 1
            res["out"]["layout-not-applicable"] = 1
            return res
        src = src + "\n" if not src.endswith("\n") else src
        try:
            ref = ast.parse(src)
            compile(src, "<c08>", "exec")
        except SyntaxError:
            res["n"] = 1
            res["out"]["invalid-module"] = 1
            return res
        feats0 = ["kind:" + case["kind"]]
        if "e" in case:
            feats0.append("expr:" + EXPRS[case["e"]][0])
        if "ctx" in case:
            feats0.append("ctx:" + EXPR_CTX[case["ctx"]][0])
        if "s" in case:
            feats0.append("simple:" + SIMPLE[case["s"]][0])
        if "c" in case:
            feats0.append("compound:" + COMPOUND[case["c"]][0])
        if "layout" in case:
            feats0.append("layout:" + LAYOUTS[case["layout"]])
        if case["kind"] == "special":
            feats0.append("special:" + case["name"])
        if case.get("layout", 0) or case["kind"] == "compound":
            res["nt"].append(h8(src))

        def fail(kind, ef, detail):
            res["fails"].append({"kind": kind, "features": sorted(set(feats0 + ef)), "size": len(src), "detail": dict(detail, source=src), "case": case})
        res["n"] += 1
        try:
            node = patchedast.get_patched_ast(src, True)
        except Exception as e:
            fail("annotation-fails:" + type(e).__name__, [], {"exception": repr(e)[:300]})
            return res
        res["mech"]["annotated"] = 1
        # (L) lossless
        res["n"] += 1
        try:
            back = patchedast.write_ast(node)
            if back != src:
                fail("write-back-differs", [], {"written": back})
        except Exception as e:
            fail("internal:" + type(e).__name__, ["in:write_ast"], {"exception": repr(e)[:300]})
        # positions
        lines = src.split("\n")
        starts = [0]
        for l in lines:
            starts.append(starts[-1] + len(l) + 1)

        def cc(lineno, bytecol):
            return starts[lineno - 1] + len(lines[lineno - 1].encode("utf-8")[:bytecol].decode("utf-8", "replace"))

        def norm(t):
            t = t.strip()
            while t.startswith("(") and t.endswith(")"):
                depth = 0
                ok = True
                for i, ch in enumerate(t):
                    if ch == "(":
                        depth += 1
                    elif ch == ")":
                        depth -= 1
                        if depth == 0 and i != len(t) - 1:
                            ok = False
                            break
                if not ok:
                    break
                t = t[1:-1].strip()
                # comment lines inside redundant parentheses are trivia as well
                while t.startswith("#"):
                    t = t.split("\n", 1)[1].strip() if "\n" in t else ""
            return t

        def walk(n, parent_region, path):
            region = getattr(n, "region", None)
            has_pos = hasattr(n, "lineno") and hasattr(n, "end_lineno") and n.end_lineno is not None
            tname = type(n).__name__
            if has_pos:
                res["n"] += 1
                if region is None:
                    cause = "other"
                    for x in path:
                        if x in ("JoinedStr.values", "FormattedValue.format_spec"):
                            cause = "fstring-internals"
                        elif x == "Try.orelse" or x == "TryStar.orelse":
                            cause = "try-orelse"
                        elif x in ("arguments.kwonlyargs", "arguments.posonlyargs", "arguments.vararg", "arguments.kwarg", "arguments.kw_defaults"):
                            cause = "special-parameters"
                        elif x in ("arg.annotation", "FunctionDef.returns", "AsyncFunctionDef.returns"):
                            cause = "annotations"
                        elif x == "ClassDef.keywords":
                            cause = "class-keywords"
                        elif x.endswith(".type_params"):
                            cause = "type-params"
                    fail("node-without-region", ["node:" + tname, "cause:" + cause], {"node": tname, "path": path})
                else:
                    if parent_region is not None and not (parent_region[0] <= region[0] and region[1] <= parent_region[1]):
                        fail("region-outside-parent", ["node:" + tname], {"node": tname, "region": region, "parent": parent_region, "text": src[region[0]:region[1]]})
                    istart, iend = cc(n.lineno, n.col_offset), cc(n.end_lineno, n.end_col_offset)
                    itext = src[istart:iend]
                    rtext = src[region[0]:region[1]]
                    same = norm(rtext) == norm(itext)
                    if not same and isinstance(n, (ast.FunctionDef, ast.AsyncFunctionDef, ast.ClassDef)) and n.decorator_list:
                        same = norm(rtext).endswith(norm(itext)) and norm(rtext).startswith("@")
                    if not same:
                        ef = ["node:" + tname]
                        if region[0] > istart or region[1] < iend:
                            ef.append("region:too-small")
                        else:
                            ef.append("region:too-large")
                        fail("region-text-differs", ef, {"node": tname, "rope": rtext, "interpreter": itext})
                    elif (path and path[-1] == "Subscript.slice" and isinstance(n, (ast.Slice, ast.Tuple))) or isinstance(n, ast.Slice) \
                            or (isinstance(n, ast.If) and rtext.startswith("elif")):
                        pass    # not parseable on their own (slices, elif arms)
                    elif isinstance(n, ast.expr) and not isinstance(n, (ast.Starred, ast.JoinedStr, ast.FormattedValue, ast.Constant)) or isinstance(n, ast.stmt):
                        # (R) the region re-parses to the same node
                        try:
                            if isinstance(n, ast.expr):
                                t2 = ast.parse("(" + rtext + "\n)", mode="eval").body
                            else:
                                t2 = ast.parse(textwrap.dedent(rtext if rtext.startswith(("@", "d", "c", "a")) or True else rtext)).body[0] if not rtext.startswith((" ", "\t")) else \
                                    ast.parse(textwrap.dedent(" " * (region[0] - src.rfind("\n", 0, region[0]) - 1) + rtext)).body[0]
                            if ast.dump(t2) != ast.dump(n) and not isinstance(getattr(n, "ctx", None), (ast.Store, ast.Del)):
                                fail("region-reparses-differently", ["node:" + tname], {"node": tname, "rope": rtext})
                        except (SyntaxError, IndexError, ValueError):
                            if not isinstance(getattr(n, "ctx", None), (ast.Store, ast.Del)) and not isinstance(n, (ast.Return, ast.Break, ast.Continue, ast.Global, ast.Nonlocal, ast.Yield, ast.YieldFrom, ast.Await)):
                                fail("region-does-not-parse", ["node:" + tname], {"node": tname, "rope": rtext})
            for field, val in ast.iter_fields(n):
                vals = val if isinstance(val, list) else [val]
                for v in vals:
                    if isinstance(v, ast.AST):
                        walk(v, region if region is not None else parent_region, path + [tname + "." + field])

        # walk the *reference* tree in parallel with the patched tree: they are the same shape (rope patches ast.parse output)
        try:
            walk(node, None, [])
        except RecursionError:
            fail("internal:RecursionError", [], {})
        res["mech"]["regions"] = 1
        res["out"]["module-ok" if not res["fails"] else "module-bad"] = 1
        res["sample"] = {"source": src}
        return res


CHECK = C08()
