"""C13 - a long-lived project answers like a freshly opened one.

States are event histories over an alphabet of mutations through rope (edits, creations,
moves of files / into packages / of packages, removal, a rename refactoring, undo, redo),
changes behind rope's back followed by validate(), and cache-warming queries.  Every sequence
to depth d is replayed on one long-lived real Project; after the last event the full query
battery is evaluated on the warm project and on a brand-new Project over the same directory
(AutoImport: fresh index over a copy of the tree) and compared as plain data."""
import itertools
import os
import shutil

from rope.base import change, exceptions
from rope.base.project import Project
from rope.contrib import findit

from ..core import Check, h8
from ..fsutil import DIR, Clock, FaultFS, Scratch, materialise

M1 = "import m2\nfrom pkg import m3\n\n\ndef f():\n    return m2.K()\n\n\nv = m2.K()\nw = m3.g()\n"
M2 = "class K:\n    attr = 2\n\n    def meth(self):\n        return 1\n"
M2B = "class K:\n    other = 5\n\n\nclass L(K):\n    pass\n"
M2C = "x = 1\n"
M3 = "def g():\n    return 3\n\n\nclass G:\n    pass\n"
M4 = "class K:\n    z = 1\n\n\ndef h():\n    return K()\n"
M1B = "import m4\nv = m4.K()\nu = m4.h()\n"
INIT = {"m1.py": M1.encode(), "m2.py": M2.encode(), "pkg": DIR, "pkg/__init__.py": b"", "pkg/m3.py": M3.encode(),
        "pkgb": DIR, "pkgb/__init__.py": b"", "pkgb/m5.py": b"def t():\n    return 5\n",
        # a file matched by the default ignored_resources pattern `*~`, and a module that star-imports m2
        "m6.py~": b"def old():\n    return 6\n", "m7.py": b"from m2 import *\n\n\ny = 1\n",
        # a module that imports the packages as wholes: what it sees in them must follow removals and edits of __init__
        "m8.py": b"import pkg\nimport pkgb\n\n\nr = pkg.sp.m9.n()\n",
        # a module two packages deep, reached by m8 through the attributes of the outer package
        "pkg/sp": DIR, "pkg/sp/__init__.py": b"", "pkg/sp/m9.py": b"def n():\n    return 9\n"}

MUT = {
    "W:m2=B": ("W", "m2.py", M2B), "W:m2=C": ("W", "m2.py", M2C), "W:m1=B": ("W", "m1.py", M1B),
    "W:m4": ("W", "m4.py", M4), "CF:m4": ("CF", "", "m4.py"), "CD:sub": ("CD", "pkg", "sub"),
    "MV:m2>pkg": ("MV", "m2.py", "pkg/m2.py"), "MV:m3>pkgb": ("MV", "pkg/m3.py", "pkgb/m3.py"), "W:m2=EMPTY": ("W", "m2.py", "pass\n"), "MV:pkg>pkg2": ("MV", "pkg", "pkg2"), "MV:m2>m4": ("MV", "m2.py", "m4.py"),
    "RM:m2": ("RM", "m2.py"), "REN:K>Q": ("REN", "m2.py", "K", "Q"), "undo": ("undo",), "redo": ("redo",),
    "X:W:m2=B": ("XW", "m2.py", M2B), "X:C:m4": ("XW", "m4.py", M4), "X:RM:m2": ("XRM", "m2.py"), "X:MV:m2>m5": ("XMV", "m2.py", "m5.py"),
    "X:C:m2": ("XW", "m2.py", M2), "X:OLD:m2=B": ("XOLD", "m2.py", M2B),
    "Q:files": ("Q", "files"), "Q:find": ("Q", "find"), "Q:m1": ("Q", "mod", "m1.py"), "Q:m2": ("Q", "mod", "m2.py"),
    "Q:occ": ("Q", "occ"), "Q:all": ("Q", "all"), "Q:pkgs": ("Q", "pkgs"),
    "X:W:pkginit": ("XW", "pkg/__init__.py", "PI = 1\n\n\ndef pf():\n    return 2\n"), "X:W:pkginit2": ("XW", "pkg/__init__.py", "\"\"\"doc two\"\"\"\nPJ = 5\n"), "RM:m3": ("RM", "pkg/m3.py"), "Q:m8": ("Q", "mod", "m8.py"),
    "RM:pkg": ("RM", "pkg"), "W:m9": ("W", "pkg/sp/m9.py", "class N:\n    deep = 1\n\n\ndef n():\n    return N()\n"),
    "MV:m2>m2~": ("MV", "m2.py", "m2.py~"), "MV:m6~>m6": ("MV", "m6.py~", "m6.py"), "Q:m7": ("Q", "mod", "m7.py"),
}
ALPHA_FULL = list(MUT)
ALPHA_SMALL = ["MV:m3>pkgb", "Q:pkgs", "W:m2=B", "W:m1=B", "W:m4", "CF:m4", "MV:m2>pkg", "MV:pkg>pkg2", "RM:m2", "undo", "X:C:m4", "X:RM:m2", "X:C:m2", "Q:all", "Q:m1"]
NAMES = ["m8", "m6", "m7", "m1", "m2", "m4", "m5", "pkg", "pkg.m3", "pkg.m2", "pkg2", "pkg2.m3", "pkg.sub", "pkg.sp.m9", "pkgb", "pkgb.m3", "pkgb.m5"]


class Skip(Exception):
    pass


def describe_pyname(pyname, depth=0):
    out = {}
    try:
        mod, line = pyname.get_definition_location()
        res = mod.get_resource() if mod is not None else None
        out["def"] = (res.path if res is not None else (None if mod is None else "<no-resource>"), line)
    except Exception as e:
        out["def"] = "raised:" + type(e).__name__
    try:
        obj = pyname.get_object()
        out["kind"] = type(obj).__name__
        try:
            t = obj.get_type()
            out["type"] = type(t).__name__ + ":" + (t.get_name() if hasattr(t, "get_name") else "")
        except Exception as e:
            out["type"] = "raised:" + type(e).__name__
        try:
            names = sorted(obj.get_attributes().keys())
            out["attrs"] = names if len(names) <= 12 else (len(names), h8(names))
        except Exception as e:
            out["attrs"] = "raised:" + type(e).__name__
    except Exception as e:
        out["kind"] = "raised:" + type(e).__name__
    return out


def observe(project, autoimport=None):
    obs = {}
    try:
        obs["files"] = sorted(r.path for r in project.get_files())
    except Exception as e:
        obs["files"] = "raised:" + type(e).__name__
    try:
        pyfiles = sorted(project.get_python_files(), key=lambda r: r.path)
        obs["python_files"] = [r.path for r in pyfiles]
    except Exception as e:
        obs["python_files"] = "raised:" + type(e).__name__
        pyfiles = []
    fm = {}
    for n in NAMES:
        try:
            r = project.find_module(n)
            fm[n] = r.path if r is not None else None
        except Exception as e:
            fm[n] = "raised:" + type(e).__name__
    obs["find_module"] = fm
    for r in pyfiles:
        d = {}
        try:
            pm = project.get_pymodule(r)
            d["source"] = pm.source_code
            attrs = pm.get_attributes()
            d["names"] = sorted(attrs.keys())
            sc = pm.get_scope()
            d["scope_names"] = sorted(sc.get_names().keys())
            d["lookup"] = {n: (describe_pyname(sc.lookup(n)) if sc.lookup(n) is not None else None) for n in ("K", "L", "x", "y")}
            d["attrs"] = {k: describe_pyname(attrs[k]) for k in sorted(attrs)}
        except exceptions.ModuleSyntaxError:
            d["error"] = "ModuleSyntaxError"
        except Exception as e:
            d["error"] = "raised:" + type(e).__name__ + ":" + str(e)[:80]
        obs["module:" + r.path] = d
    # packages: the names a package object offers (its __init__ plus its sub-modules)
    pk = {}
    try:
        folders = sorted({r.parent.path for r in pyfiles if r.name == "__init__.py"})
        for fp in folders:
            try:
                pkgobj = project.get_pymodule(project.get_folder(fp))
                pk[fp] = (sorted(pkgobj.get_attributes().keys()), pkgobj.get_doc(), sorted(pkgobj.get_scope().get_names().keys()))
            except Exception as e:
                pk[fp] = "raised:" + type(e).__name__
    except Exception as e:
        pk = "raised:" + type(e).__name__
    obs["packages"] = pk
    # occurrences of the first class defined in each module
    occ = {}
    for r in pyfiles:
        try:
            src = r.read()
            i = src.find("class ")
            if i < 0:
                continue
            off = i + 6
            locs = findit.find_occurrences(project, r, off)
            occ[r.path] = sorted((l.resource.path, l.region[0], l.region[1]) for l in locs)
        except Exception as e:
            occ[r.path] = "raised:" + type(e).__name__
    obs["occurrences"] = occ
    if autoimport is not None:
        ai = {}
        for n in ("K", "L", "g", "G", "h", "x", "f", "m3", "m2", "Q"):
            try:
                ai[n] = sorted(set(autoimport.get_modules(n)))
            except Exception as e:
                ai[n] = "raised:" + type(e).__name__
        try:
            ai["search:K"] = sorted(set(autoimport.search("K", exact_match=True)))
        except Exception as e:
            ai["search:K"] = "raised:" + type(e).__name__
        obs["autoimport"] = ai
    return obs


class World:
    def __init__(self, scratch, with_ai):
        self.scratch = scratch
        self.root = scratch.new()
        self.clock = Clock()
        materialise(self.root, INIT)
        for d, ds, fs in os.walk(self.root):
            for n in fs:
                self.clock.stamp(os.path.join(d, n))
        self.fs = FaultFS(clock=self.clock)
        self.p = Project(self.root, fscommands=self.fs, ropefolder=None)
        self.ai = None
        if with_ai:
            from rope.contrib.autoimport.sqlite import AutoImport
            self.ai = AutoImport(self.p, observe=True, memory=True)
            self.ai.clear_cache()
            for r in self.p.get_python_files():
                self.ai.update_resource(r)
        self.n = 0

    def full(self, rel):
        return os.path.join(self.root, rel)

    def apply(self, ev):
        p = self.p
        k = ev[0]
        self.n += 1
        label = "c%d" % self.n
        if k == "W":
            f = p.get_file(ev[1])
            if not f.exists():
                raise Skip()
            cs = change.ChangeSet(label)
            cs.add_change(change.ChangeContents(f, ev[2]))
            p.do(cs)
        elif k in ("CF", "CD"):
            parent = p.get_folder(ev[1]) if ev[1] else p.root
            if not parent.exists() or parent.has_child(ev[2]):
                raise Skip()
            cs = change.ChangeSet(label)
            cs.add_change((change.CreateFile if k == "CF" else change.CreateFolder)(parent, ev[2]))
            p.do(cs)
        elif k == "MV":
            if not os.path.exists(self.full(ev[1])) or os.path.exists(self.full(ev[2])) or not os.path.isdir(os.path.dirname(self.full(ev[2]))):
                raise Skip()
            cs = change.ChangeSet(label)
            cs.add_change(change.MoveResource(p.get_resource(ev[1]), ev[2], exact=True))
            p.do(cs)
        elif k == "RM":
            if not os.path.exists(self.full(ev[1])):
                raise Skip()
            cs = change.ChangeSet(label)
            cs.add_change(change.RemoveResource(p.get_resource(ev[1])))
            p.do(cs)
        elif k == "REN":
            from rope.refactor.rename import Rename
            f = p.get_file(ev[1])
            if not f.exists():
                raise Skip()
            src = f.read()
            i = src.find("class " + ev[2])
            if i < 0:
                raise Skip()
            try:
                ch = Rename(p, f, i + 6).get_changes(ev[3])
            except exceptions.RopeError:
                raise Skip()
            p.do(ch)
        elif k == "undo":
            if not p.history.undo_list:
                raise Skip()
            try:
                p.history.undo()
            except NotImplementedError:
                raise Skip()
        elif k == "redo":
            if not p.history.redo_list:
                raise Skip()
            p.history.redo()
        elif k == "XW":
            path = self.full(ev[1])
            if not os.path.isdir(os.path.dirname(path)):
                raise Skip()
            with open(path, "wb") as fh:
                fh.write(ev[2].encode())
            self.clock.stamp(path)
            p.validate(p.root)
        elif k == "XOLD":
            # e.g. a backup restored with its original (older) time stamp
            path = self.full(ev[1])
            if not os.path.isfile(path):
                raise Skip()
            with open(path, "wb") as fh:
                fh.write(ev[2].encode())
            os.utime(path, (900_000_000, 900_000_000))
            p.validate(p.root)
        elif k == "XRM":
            path = self.full(ev[1])
            if not os.path.isfile(path):
                raise Skip()
            os.remove(path)
            p.validate(p.root)
        elif k == "XMV":
            a, b = self.full(ev[1]), self.full(ev[2])
            if not os.path.isfile(a) or os.path.exists(b):
                raise Skip()
            os.rename(a, b)
            self.clock.stamp(b)
            p.validate(p.root)
        elif k == "Q":
            self.query(ev)

    def query(self, ev):
        p = self.p
        what = ev[1]
        try:
            if what == "files":
                p.get_files()
                p.get_python_files()
            elif what == "find":
                for n in NAMES:
                    p.find_module(n)
            elif what == "mod":
                f = p.get_file(ev[2])
                if not f.exists():
                    raise Skip()
                pm = p.get_pymodule(f)
                for k, v in pm.get_attributes().items():
                    describe_pyname(v)
                pm.get_scope().get_names()
                pm.get_scope().lookup("K")
            elif what == "occ":
                f = p.get_file("m2.py")
                if not f.exists():
                    raise Skip()
                i = f.read().find("class ")
                if i < 0:
                    raise Skip()
                findit.find_occurrences(p, f, i + 6)
            elif what == "pkgs":
                for fp in ("pkg", "pkgb", "pkg2"):
                    f = p.get_folder(fp)
                    if f.exists():
                        p.get_pymodule(f).get_attributes()
            elif what == "all":
                observe(p, self.ai)
        except Skip:
            raise
        except exceptions.RopeError:
            pass

    def close(self):
        try:
            if self.ai is not None:
                self.ai.close()
            self.p.close()
        finally:
            self.scratch.drop(self.root)


def diff_obs(a, b):
    out = []
    for k in sorted(set(a) | set(b)):
        if a.get(k) != b.get(k):
            if isinstance(a.get(k), dict) and isinstance(b.get(k), dict):
                for kk in sorted(set(a[k]) | set(b[k])):
                    if a[k].get(kk) != b[k].get(kk):
                        out.append((k, kk, a[k].get(kk), b[k].get(kk)))
            else:
                out.append((k, None, a.get(k), b.get(k)))
    return out


class C13(Check):
    pid = "C13"
    case_timeout = 900
    budget_thorough = 2400
    level = "model_checking"
    rule = ("states are event histories over 37 events: 18 mutations through rope (removal of a package folder whose name is a prefix of a sibling's, edit of a module two packages deep, moves of a file across the default ignore pattern `*~` in both directions, content edits that add/remove definitions and "
            "imports, create file/folder, move file into package, rename package folder, move onto another module name, remove, "
            "Rename refactoring, undo, redo), 6 changes behind rope's back each followed by validate() (write, write with an older time stamp, create, remove, "
            "move, re-create) and 7 cache-warming queries (incl. the global scope's name table of a star-importing module); every enabled sequence to depth d is replayed on one long-lived real "
            "Project (with an observing AutoImport index); after the last event the whole query battery (files, python files, "
            "find_module x10 names, per module: source, names, definition locations, inferred kinds/types/attribute sets, "
            "find_occurrences, AutoImport get_modules/search) is compared with a brand-new Project on the same directory; "
            "non-trivial = sequences containing at least one mutation after at least one query or mutation (warm caches); "
            "distinct by event sequence; states = distinct (tree, warm observation) pairs")
    assumptions = ["file time stamps are owned by a logical clock (every write through or behind rope ticks it), so (mtime,size) indicators are deterministic",
                   "the brand-new Project (and a fresh AutoImport index filled with update_resource over a copy of the tree) is the reference",
                   "AutoImport.generate_cache's process pool is not used; indexes are filled with update_resource"]
    chunksize = 1
    budget_quick = 450

    def bound_text(self, tier):
        return "depth 3 over 37 events" if tier == "quick" else "depth 3 over 37 events; depth 5 over a 15-event sub-alphabet"

    def cases(self, tier):
        out = []
        plan = [("full", 3)] if tier == "quick" else [("full", 3), ("small", 5)]
        for alpha, depth in plan:
            names = ALPHA_FULL if alpha == "full" else ALPHA_SMALL
            for a in names:
                for b in names:
                    out.append({"alpha": alpha, "depth": depth, "prefix": [a, b]})
                out.append({"alpha": alpha, "depth": 1, "prefix": [a]})
        return out

    def setup_worker(self):
        self.scratch = Scratch("c13")

    def replay(self, seq, with_ai=True):
        w = World(self.scratch, with_ai)
        try:
            for name in seq:
                w.apply(MUT[name])
            warm = observe(w.p, w.ai)
            fresh_p = Project(w.root, ropefolder=None)
            fresh_ai = None
            copy = None
            try:
                if with_ai:
                    from rope.contrib.autoimport.sqlite import AutoImport
                    copy = w.root + "_copy"
                    shutil.copytree(w.root, copy)
                    cp = Project(copy, ropefolder=None)
                    fresh_ai = AutoImport(cp, observe=False, memory=True)
                    fresh_ai.clear_cache()
                    for r in cp.get_python_files():
                        fresh_ai.update_resource(r)
                fresh = observe(fresh_p, fresh_ai)
            finally:
                fresh_p.close()
                if fresh_ai is not None:
                    fresh_ai.close()
                    cp.close()
                    shutil.rmtree(copy, ignore_errors=True)
            return warm, fresh
        finally:
            w.close()

    def run(self, case):
        triage = os.environ.get("MC_TRIAGE") == "1"
        res = {"n": 0, "nt": [], "out": {}, "mech": {}, "fails": [], "states": [], "trans": 0, "traces": 0, "passfeat": []}
        names = ALPHA_FULL if case["alpha"] == "full" else ALPHA_SMALL
        depth = case["depth"]
        stack = [list(case["exact"])] if "exact" in case else [list(case["prefix"])]
        while stack:
            seq = stack.pop()
            try:
                warm, fresh = self.replay(seq)
            except Skip:
                res["out"]["disabled"] = res["out"].get("disabled", 0) + 1
                continue
            except exceptions.RopeError as e:
                # a mutation refused by rope itself (not a query): sequence ends here
                res["out"]["refused:" + type(e).__name__] = res["out"].get("refused:" + type(e).__name__, 0) + 1
                res["refused"] = res.get("refused", 0) + 1
                continue
            res["n"] += 1
            res["traces"] += 1
            res["trans"] += len(seq)
            muts = [s for s in seq if not s.startswith("Q:")]
            if muts and len(seq) >= 2 and seq.index(muts[-1]) > 0:
                res["nt"].append(h8(seq))
            res["states"].append(h8([warm]))
            res["mech"][seq[-1].split(":")[0]] = res["mech"].get(seq[-1].split(":")[0], 0) + 1
            d = diff_obs(warm, fresh)
            feats = sorted({"ev:" + s for s in seq} | {"last:" + seq[-1]} |
                           {"pair:%s>%s" % (a, b) for a, b in zip(seq, seq[1:])})
            if d:
                byk = {}
                for k, kk, a, b in d:
                    area = "autoimport" if k == "autoimport" else ("files" if k in ("files", "python_files") else
                                                                   "find_module" if k == "find_module" else "occurrences" if k == "occurrences" else "packages" if k == "packages" else "module")
                    byk.setdefault(area, []).append((k, kk, a, b))
                for area, items in byk.items():
                    res["fails"].append({"kind": "differs:" + area, "features": feats, "size": len(seq),
                                         "detail": {"sequence": seq, "differences": [
                                             {"query": k, "item": kk, "warm": a, "fresh": b} for k, kk, a, b in items[:4]]},
                                         "case": {"alpha": case["alpha"], "depth": len(seq), "exact": seq}})
                res["out"]["differs"] = res["out"].get("differs", 0) + 1
            else:
                res["out"]["agree"] = res["out"].get("agree", 0) + 1
                if triage:
                    res["passfeat"].append(feats)
            if "exact" in case:
                continue
            if len(seq) < depth:
                for nm in reversed(names):
                    stack.append(seq + [nm])
        res["sample"] = {"prefix": case.get("prefix"), "depth": depth}
        return res


CHECK = C13()
