"""C07 - import tidying never changes what a name means, and is idempotent.

Space: import blocks of <=2 (thorough 3) statements over 17 import forms (plain, dotted,
aliased, from, from-as, multi-name, star, relative, duplicates by construction, __future__,
multi-line parenthesised) x per-statement usage {unused, used at module level, used inside a
function, listed in __all__ only} x target module in the project root or inside a package x
5 actions x import preferences.  Oracle: CPython - the target module and a client doing
`from target import *` print the same before and after; the action applied a second time
changes nothing; non-import code is unchanged up to qualification."""
import itertools
import os

from rope.refactor.importutils import ImportOrganizer

from ..core import Check, h8
from ..progx import Bench
from ..runner import compiles, run_project

LIB = {
    "xma.py": "A1 = 'xma.A1'\nA2 = 'xma.A2'\n_priv = 0\n",
    "xmb.py": "B1 = 'xmb.B1'\nA1 = 'xmb.A1'\n__all__ = ['B1']\n",
    "xm.py": "M1 = 'xm.M1'\n",
    "xmaa.py": "A0 = 'xmaa.A0'\nA1 = 'xmaa.A1'\n",
    "xmid.py": "from xma import *\nMID = 'xmid.MID'\n",
    "xpkt/xq1.py": "V1 = 'xpkt.xq1.V1'\n", "xpkt/xq2.py": "V2 = 'xpkt.xq2.V2'\n",
    "xpk/__init__.py": "P0 = 'xpk.P0'\n",
    "xpk/xmc.py": "C1 = 'xpk.xmc.C1'\nC2 = 'xpk.xmc.C2'\n",
    "xpk/xsub/__init__.py": "",
    "xpk/xsub/xme.py": "E1 = 'xpk.xsub.xme.E1'\n",
    "xpk/xutil.py": "U1 = 'xpk.xutil.U1'\n",
    "xpk/xsub/xutil.py": "U2 = 'xpk.xsub.xutil.U2'\n",
    # a top-level module that shares its name with the sub-package's sibling module
    "xutil.py": "U9 = 'xutil.U9'\n",
    "xmeta.py": "class Meta(type):\n    pass\n\n\nclass Base:\n    pass\n\n\nTAG = 'xmeta.TAG'\n\n\ndef deco(f):\n    return f\n",
}
# (statement, expression that uses what it imports, name(s) it binds) ; where: root / pkg (target inside xpk)
FORMS = [
    ("import xma", "xma.A1", "root"),
    ("import xma as xa", "xa.A2", "root"),
    ("import xpk.xmc", "xpk.xmc.C1", "root"),
    ("import xpk.xsub.xme", "xpk.xsub.xme.E1", "root"),
    ("from xma import A1", "A1", "root"),
    ("from xma import A1 as z1", "z1", "root"),
    ("from xma import A1, A2", "A2", "root"),
    ("from xma import (A1,\n    A2)", "A1", "root"),
    ("from xma import *", "A2", "root"),
    ("from xmb import *", "B1", "root"),
    ("import os", "os.sep", "root"),
    ("from __future__ import annotations", None, "root"),
    ("import xma, xmb", "xmb.B1", "root"),
    ("from xpk import xmc", "xmc.C1", "root"),
    ("from xpk.xmc import C1", "C1", "root"),
    ("from . import xmc", "xmc.C2", "pkg"),
    ("from .xmc import C1", "C1", "pkg"),
    ("from .xsub import xme", "xme.E1", "pkg"),
    ("from .xsub.xme import E1", "E1", "pkg"),
    ("from .xutil import U2", "U2", "sub"),
    ("from ..xutil import U1", "U1", "sub"),
    ("from . import xme", "xme.E1", "sub"),
    ("from .. import xmc", "xmc.C1", "sub"),
    ("from .xutil import *", "U2", "sub"),
    ("import xmeta", "xmeta.%s", "root"),
    ("from xmeta import Meta, Base, TAG, deco", "%s", "root"),
    # a package next to an aliased import of its sub-module; a second provider of a star-exported name;
    # a module whose name is a prefix of another imported module's name
    ("import xpk", "xpk.P0", "root"),
    ("import xpk.xmc as xc", "xc.C2", "root"),
    ("from xmb import A1", "A1", "root"),
    ("import xm", "xm.M1", "root"),
    ("from xmaa import *", "A0", "root"),
    # a star import of a module that itself star-imports: the used name originates two modules away
    ("from xmid import *", "A2", "root"),
    # statements of a package's __init__.py that import the package's own sub-modules
    ("from . import xq1", "xq1.V1", "init"), ("from xpkt import xq1", "xq1.V1", "init"), ("from .xq1 import V1", "V1", "init"),
    ("import xpkt.xq2", "xpkt.xq2.V2", "init"), ("from . import xq1, xq2", "xq2.V2", "init"),
]
SPECIAL_USAGES = {"class-keyword": ("Meta", "class Z%d(metaclass=%s):\n    pass\n\n\nprint(type(Z%d).__name__)"),
                  "class-base": ("Base", "class Z%d(%s):\n    pass\n\n\nprint(Z%d.__mro__[1].__name__)"),
                  "default-arg": ("TAG", "def fn%d(q=%s):\n    return q\n\n\nprint(fn%d())"),
                  # the imported name only as the base of an attribute that is assigned / updated in place
                  # (an attribute nothing else reads: rewriting `TAG` to `xmeta.TAG` must not become observable through the store)
                  "attr-store": ("STORED", "ZS%d = 0\n%s = 'set'\nprint('stored', %d)"),
                  "decorator": ("deco", "@%s\ndef fn%d():\n    return 1\n\n\nprint(fn%d())")}
USAGES = ["unused", "module", "function", "all-only"]
ACTIONS = ["organize_imports", "expand_star_imports", "froms_to_imports", "relatives_to_absolutes", "handle_long_imports"]
PREFS = [{}, {"split_imports": True}, {"pull_imports_to_top": False}, {"sort_imports_alphabetically": True},
         {"split_imports": True, "sort_imports_alphabetically": True}]


# the forms added last are paired only with the statements they can interact with
PARTNERS = {
    "from xmid import *": ["from xma import A1", "from xma import *", "import xma", "from xmb import A1"],
    "import xpk": ["import xpk.xmc", "import xpk.xsub.xme", "import xpk.xmc as xc", "from xpk import xmc", "from xpk.xmc import C1", "import xma"],
    "import xpk.xmc as xc": ["import xpk", "import xpk.xmc", "from xpk import xmc", "import xma as xa", "from xpk.xmc import C1"],
    "from xmb import A1": ["from xma import A1", "from xma import A1 as z1", "from xma import A1, A2", "from xma import (A1,\n    A2)", "from xma import *",
                           "from xmb import *", "from xmaa import *", "import xma, xmb", "import xma"],
    "import xm": ["import xma", "import xma as xa", "import xma, xmb", "from xma import A1", "import xmeta"],
    "from xmaa import *": ["from xma import A1", "from xma import A1, A2", "from xma import *", "from xmb import *", "from xmb import A1", "import xma"],
}


def partners_ok(stmts):
    texts = [FORMS[i][0] for i in stmts]
    for t in texts:
        if t in PARTNERS and not all(o == t or o in PARTNERS[t] or (o in PARTNERS and t in PARTNERS[o]) for o in texts):
            return False
    return True


def build_target(stmts, usages, header):
    imports = [FORMS[i][0] for i in stmts]
    # __future__ must come first
    imports.sort(key=lambda s: 0 if "__future__" in s else 1)
    body = []
    allnames = []
    for i, u in zip(stmts, usages):
        stmt, expr, _ = FORMS[i]
        if expr is None or u == "unused":
            continue
        if "%s" in expr:
            attr, tmpl = SPECIAL_USAGES.get(u, ("TAG", None))
            e = expr % attr
            if tmpl is None:
                expr = e
            elif u == "decorator":
                body.append(tmpl % (e, i, i))
                continue
            else:
                body.append(tmpl % (i, e, i))
                continue
        if u == "module":
            body.append("print(%r, %s)" % (expr, expr))
        elif u == "function":
            body.append("def use_%d():\n    return %s\n\n\nprint(%r, use_%d())" % (i, expr, expr, i))
        elif u == "all-only":
            allnames.append(expr.split(".")[0])
    src = header + "\n".join(imports) + "\n\n"
    if allnames:
        src += "__all__ = %r\n" % sorted(set(allnames))
    src += "\n".join(body) + ("\n" if body else "")
    src += "LOCAL = 'local'\n"
    return src


class C07(Check):
    pid = "C07"
    level = "exploration"
    rule = ("cases = (target location in {project root, inside package xpk, inside sub-package xpk.xsub, a package's own __init__.py}, header in {none, docstring+comment}, block of <=2 (3) "
            "import statements over 37 forms, usage of each in {unused, module level, inside a function, only in __all__; for two forms also class keyword (metaclass=), base class, default argument, decorator, target of an attribute assignment}); "
            "evaluations = one ImportOrganizer action per (case, action in 5, preference set in 5 (thorough) / default + split "
            "(quick)); oracle per performed action: modules compile; the target and a star-importing client print the same; a second "
            "application changes nothing; non-trivial = actions that changed the source; distinct by (source, action, prefs)")
    assumptions = ["behaviour = stdout + exception type of importing the target module and of a client that star-imports it and prints every public name",
                   "library modules define uniquely valued names, so a name resolving to another object is visible"]
    chunksize = 8

    def bound_text(self, tier):
        return "blocks of <=2 statements, 2 preference sets (3 incl. pull_imports_to_top=False for single statements and blocks with a multi-line import)" if tier == "quick" else "blocks of <=2 statements x 5 preference sets; blocks of 3 over the first 16 forms x default preferences"

    def cases(self, tier):
        out = []
        n = 2 if tier == "quick" else 3
        for where in ("root", "pkg", "sub", "init"):
            forms = [i for i, f in enumerate(FORMS) if f[2] == "root" or (where == "pkg" and f[2] == "pkg") or (where == "sub" and f[2] == "sub") or (where == "init" and f[2] == "init")]
            if where in ("sub", "init"):
                forms = [i for i in forms if FORMS[i][2] == where or FORMS[i][0] in ("import xma", "from xma import A1")]
            for k in range(1, n + 1):
                for stmts in itertools.permutations(forms, k):
                    if k >= 2 and not partners_ok(stmts):
                        continue
                    if k == 3 and any(i >= 16 for i in stmts):
                        continue    # blocks of three: the first 16 forms only
                    if where != "root" and not any(FORMS[i][2] == where for i in stmts):
                        continue
                    if k == 3 and stmts[0] > stmts[1]:
                        continue   # order of the first two only matters pairwise (covered at k=2)
                    special = [j for j, i in enumerate(stmts) if "%s" in (FORMS[i][1] or "")]
                    ulists = list(itertools.product(USAGES if k < 3 else USAGES[:2], repeat=k))
                    for j in special:
                        for su in SPECIAL_USAGES:
                            for base_u in ("unused", "module"):
                                u_ = [base_u] * k
                                u_[j] = su
                                ulists.append(tuple(u_))
                    for usages in ulists:
                        for header in (0, 1) if k < 2 else (0,):
                            out.append({"where": where, "stmts": list(stmts), "usages": list(usages), "header": header,
                                        "nprefs": (3 if k == 1 or any(FORMS[i][0].startswith("from xma import (") for i in stmts) else 2) if tier == "quick"
                                        else (5 if k < 3 else 1)})
        return out

    def setup_worker(self):
        self.bench = Bench("c07")

    def run(self, case):
        triage = os.environ.get("MC_TRIAGE") == "1"
        tier_prefs = PREFS[:case.get("nprefs", 2)]
        res = {"n": 0, "nt": [], "out": {}, "mech": {}, "fails": [], "refused": 0, "passfeat": []}
        header = ['', '"""Doc string."""\n# a comment\n'][case["header"]]
        src = build_target(case["stmts"], case["usages"], header)
        tpath = {"root": "xt.py", "pkg": "xpk/xt.py", "sub": "xpk/xsub/xt.py", "init": "xpkt/__init__.py"}[case["where"]]
        tmod = {"root": "xt", "pkg": "xpk.xt", "sub": "xpk.xsub.xt", "init": "xpkt"}[case["where"]]
        if "__all__" in src:
            # names exported through __all__ must stay available to a star-importing client
            client = "from %s import *\nprint(sorted((k, v) for k, v in globals().items() if not k.startswith('_') and isinstance(v, str)))\n" % tmod
        else:
            client = "import %s as target\nprint(target.LOCAL)\n" % tmod
        files = dict(LIB)
        files[tpath] = src
        files["xclient.py"] = client
        if compiles(files):
            res["n"] = 1
            res["out"]["invalid-block"] = 1
            return res
        entries = [tmod, "xclient"]
        base = run_project(files, entries)
        if any(v[1] for v in base.values()):
            res["n"] = 1
            res["out"]["base-raises:%s" % [v[1] for v in base.values()]] = 1
            return res
        feats0 = ["where:" + case["where"], "header:%d" % case["header"]]
        for i, u in zip(case["stmts"], case["usages"]):
            st = FORMS[i][0]
            kind = ("future" if "__future__" in st else "star" if "*" in st else "relative" if st.startswith("from .") else
                    "from-as" if st.startswith("from") and " as " in st else "from-multi" if st.startswith("from") and "," in st else
                    "from-module" if st in ("from xpk import xmc",) else "from" if st.startswith("from") else
                    "import-as" if " as " in st else "import-dotted" if "." in st else "import-multi" if "," in st else "import")
            feats0 += ["form:" + kind, "form:%s/%s" % (kind, u), "stmt:" + st.replace("\n", " ")]
            if st in ("from xpk import xmc", "from . import xmc", "from .xsub import xme", "from . import xme", "from .. import xmc",
                      "from . import xq1", "from xpkt import xq1", "from . import xq1, xq2"):
                feats0.append("from-import-of-a-submodule")
            if st.startswith("from") and u == "all-only":
                feats0.append("from-import-used-only-in-__all__")
        # two statements that bind the same name from different sources: the later one wins at run time
        bound = []
        for i in sorted(case["stmts"], key=lambda i: 0 if "__future__" in FORMS[i][0] else 1):
            st = FORMS[i][0]
            if st == "from xma import *":
                bound.append(("star", {"A1", "A2"}))
            elif st == "from xmid import *":
                bound.append(("star", {"A1", "A2", "MID"}))
            elif st == "from xmaa import *":
                bound.append(("star-using-another-name", {"A0", "A1"}))
            elif st == "from xmb import *":
                bound.append(("star-hiding-A1", {"B1", "A1"}))
            elif st.startswith("from ") and "__future__" not in st:
                names = st.split(" import ")[1].replace("(", "").replace(")", "").replace("\n", " ").split(",")
                bound.append(("explicit", {n.split(" as ")[-1].strip() for n in names}))
            else:
                bound.append(("import", set()))
        srcmods = {FORMS[i][0].split()[1] for i in case["stmts"]}
        if {"from xmb import *", "from xmb import A1"} <= {FORMS[i][0] for i in case["stmts"]}:
            feats0.append("star-import-next-to-an-explicit-import-of-a-name-hidden-by-__all__")
        ordered = sorted(case["stmts"], key=lambda i: 0 if "__future__" in FORMS[i][0] else 1)
        for x in range(len(bound)):
            for y in range(x + 1, len(bound)):
                if bound[x][1] & bound[y][1] and FORMS[ordered[x]][0].split()[1] != FORMS[ordered[y]][0].split()[1]:
                    label = "same-name-bound-twice:%s-then-%s" % (bound[x][0], bound[y][0])
                    if "from xmb import A1" not in (FORMS[ordered[x]][0], FORMS[ordered[y]][0]):
                        label += "/sorting-swaps-them"     # xma sorts before xmaa: the tidied block has the other order
                    feats0.append(label)
        mods = [FORMS[i][0].split()[1].lstrip(".") for i in case["stmts"]]
        if len(set(mods)) < len(mods):
            feats0.append("same-module-twice")
        for action in ACTIONS:
            for prefs in tier_prefs:
                key = [action, [list(kv) for kv in sorted(prefs.items())]]     # JSON shape, so that a replayed case compares equal
                if "only" in case and case["only"] != key:
                    continue
                res["n"] += 1
                ctx = self.bench.open(files, **prefs)
                try:
                    status, payload = ctx.refactor(lambda p: getattr(ImportOrganizer(p), action)(p.get_file(tpath)))
                    new = ctx.tree()
                    second = None
                    if status == "done":
                        st2, pl2 = ctx.refactor(lambda p: getattr(ImportOrganizer(p), action)(p.get_file(tpath)))
                        second = (st2, ctx.tree().get(tpath))
                finally:
                    ctx.close()
                feats = sorted(set(feats0 + ["action:" + action] + ["pref:%s=%s" % kv for kv in prefs.items()]))
                detail = {"target": src, "path": tpath, "action": action, "prefs": prefs}
                res["mech"][action] = res["mech"].get(action, 0) + 1

                def fail(k, extra):
                    res["fails"].append({"kind": k, "features": feats, "size": len(case["stmts"]) * 10 + len(src) // 40,
                                         "detail": dict(detail, **extra), "case": dict(case, only=key)})
                if status == "refused":
                    res["refused"] += 1
                    continue
                if status == "nochange":
                    res["out"]["no-change"] = res["out"].get("no-change", 0) + 1
                    continue
                if status != "done":
                    fail(status if status != "internal" else "internal:" + str(payload).split(":")[0], {"message": str(payload)})
                    continue
                changed = sorted(p for p in set(files) | set(new) if files.get(p) != new.get(p))
                if changed and changed != [tpath]:
                    fail("other-file-changed", {"changed": changed})
                    continue
                if not changed:
                    res["out"]["no-op"] = res["out"].get("no-op", 0) + 1
                    continue
                res["nt"].append(h8([src, tpath, action, sorted(prefs.items())]))
                bad = compiles(new)
                if bad:
                    fail("syntax-error", {"result": new[tpath], "message": bad[1]})
                    continue
                got = run_project(new, entries)
                if got != base:
                    fail("behaviour-differs", {"result": new[tpath], "before": base, "after": got})
                    continue
                if second[0] == "done" and second[1] != new[tpath]:
                    fail("not-idempotent", {"result": new[tpath], "second": second[1]})
                    continue
                if second[0] not in ("done", "nochange"):
                    fail("second-application:" + second[0], {"result": new[tpath]})
                    continue
                res["out"]["preserved"] = res["out"].get("preserved", 0) + 1
                if triage:
                    res["passfeat"].append(feats)
        res["sample"] = {"target": src, "path": tpath}
        return res


CHECK = C07()
