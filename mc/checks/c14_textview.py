"""C14 - rope's view of source text agrees with Python's tokenizer.

Space: statement templates (assignment, trailing comment, if/else block, bracketed multi-line
list, backslash continuation, semicolon-joined, tab-indented def, keyword glued to a literal)
x expression atoms (identifiers incl. non-ASCII and keyword-like, number spellings, every
string prefix / quote style, strings containing quotes, '#', brackets, keywords and
backslash-newline, strings ending in an escaped backslash, f-strings with nested quotes /
brackets / format specs, implicit concatenation, attribute chains, calls, subscripts) -
one and two statements per text; for each text ALL offsets and line numbers.
Oracle: CPython's tokenize and ast."""
import ast
import io
import itertools
import keyword
import os
import tokenize

from rope.base import codeanalyze, libutils, simplify, worder
from rope.base.project import Project

from ..core import Check, h8
from ..fsutil import Scratch

ATOMS = [
    ("name", "a"), ("name-kwlike", "if_"), ("name-unicode", "\u00e9t\u00e9"), ("int", "1"), ("hex", "0x1F"), ("underscore-num", "1_000"),
    ("float", "1.5e3"), ("imag", "2j"),
    ("str-sq", "'s'"), ("str-dq-escq", '"q\\"x"'), ("str-hash", "'#no'"), ("str-bracket", '"(["'), ("str-kw", "'if x:'"),
    ("str-triple", '"""tri\nple"""'), ("str-triple-sq", "'''a'b'''"), ("str-raw", "r'\\n'"), ("str-bytes", "b'x'"), ("str-rb", "rb'y'"),
    ("str-Rb", "Rb'y'"), ("str-u", "u'z'"), ("str-esc-backslash-end", "'C:\\\\'"), ("str-cont", "'li\\\nne'"),
    ("fstr", "f'{a}'"), ("fstr-spec", 'f"{a!r:>{w}}"'), ("fstr-nested-dq", "f'{\"n\"}'"), ("fstr-nested-same", "f'{'n'}'"),
    ("fstr-bracket", "f'{a[0]}{{x}}'"), ("fstr-triple", 'f"""{a}\n{b}"""'), ("fstr-rf", "rf'{a}\\d'"),
    ("concat", "'a' 'b'"), ("paren", "(a)"), ("list", "[a, b]"), ("dict", "{a: b}"), ("attr", "a.b"), ("attr-chain", "a.b.c"),
    ("str-formfeed", "'a\x0cb'"), ("str-vt", "'a\x0bb'"), ("str-fs", "'a\x1cb'"), ("str-nel", "'a\x85b'"), ("str-ls", "'a\u2028b'"),
    ("attr-unicode", "\u00e9t\u00e9.b"), ("call-unicode", "stra\u00dfe(b).c"), ("subscript-unicode", "caf\u00e9[0].d"),
    ("softkw-match-call", "match(b).c"), ("softkw-type-call", "type(a).__name__"), ("softkw-case-attr", "case.d"), ("softkw-underscore", "_(a).b"),
    ("attr-of-match", "a.match"),
    ("attr-spaced", "a . b"), ("subscript", "a[0]"), ("call", "a(b)"), ("call-chain", "a.b(c).d"), ("call-kw", "a(b=c)"),
]
TEMPLATES = [
    ("assign", "x = {0}\n"), ("assign-comment", "x = {0}  # c 'q' ( [\n"), ("comment-backslash", "# path C:\\tools\\\nx = {0}\n"),
    ("if-else", "if {0}:\n    y = {1}\nelse:\n    pass\n"), ("bracket-lines", "x = [\n    {0},  # c )\n    {1},\n]\n"),
    ("paren-lines", "x = ({0},\n     {1})\n"), ("backslash-cont", "x = {0} + \\\n    {1}\n"), ("semicolon", "x = {0}; y = {1}\n"),
    ("tab-def", "def f(p={0}):\n\treturn {1}\n"), ("glued-or", "x = a or{0}\n"), ("glued-if-else", "x = 1 if{0}else 2\n"),
    ("glued-in", "x = a in{0}\n"), ("glued-not", "x = not{0}\n"), ("blank-lines", "x = {0}\n\n\n# only comment\ny = {1}\n"),
    ("nested-block", "for i in {0}:\n    if i:\n        z = {1}\n    w = 1\n"), ("no-final-newline", "x = {0}"),
    ("formfeed-line", "x = {0}\n\x0c\ny = {1}\n"), ("comment-formfeed", "x = {0}  # c\x0cd \x1c \u2028 e\ny = {1}\n"),
    ("brace-lines", "x = {{\n    {0}: 1,\n    'k': a\n    .b,\n    'j': {1},\n}}\n"), ("set-comp-lines", "x = {{a\n     .b for q in\n     {0}}}\n"),
    ("decorated", "@{0}\ndef g():\n    return {1}\n"), ("lambda-default", "h = lambda q={0}: {1}\n"),
]


def tokens(src):
    return list(tokenize.generate_tokens(io.StringIO(src).readline))


def line_starts(src):
    st = [0]
    for l in src.split("\n"):
        st.append(st[-1] + len(l) + 1)
    return st


class C14(Check):
    pid = "C14"
    level = "exploration"
    rule = ("cases = texts built from 22 statement templates x 53 expression atoms in each hole (one statement: full product; two "
            "statements: every template pair with the same atom), kept when tokenize and compile accept them; evaluations = sub-checks "
            "per text: ignored_regions vs STRING/f-string/COMMENT token spans, real_code length and characters outside regions, "
            "SourceLinesAdapter offset<->line round trips for every offset and line, logical_line_in for every physical line carrying "
            "a token, Worder.get_word_at / get_word_range at every character of every identifier token, get_primary_at vs the ast "
            "Name/Attribute/Call chain; non-trivial = texts containing a string, comment, continuation or bracketed line break; "
            "distinct by text")
    assumptions = ["tokenize and ast of the running interpreter (3.12) are the reference",
                   "identifier tokens inside f-string replacement fields are not used for the Worder checks"]
    chunksize = 32

    def bound_text(self, tier):
        return "one statement: 22 templates x 53 atoms (x53 for two-hole templates); two statements: template pairs"

    def cases(self, tier):
        out = []
        for ti, (tn, t) in enumerate(TEMPLATES):
            two = "{1}" in t
            for a in range(len(ATOMS)):
                if two:
                    rng = range(len(ATOMS)) if tier == "thorough" else [a, 0, 8, 22]
                    for b in sorted(set(rng)):
                        out.append({"t": [ti], "a": [a, b]})
                else:
                    out.append({"t": [ti], "a": [a, a]})
        for t1 in range(len(TEMPLATES)):
            for t2 in range(len(TEMPLATES)):
                if TEMPLATES[t1][0] == "no-final-newline":
                    continue
                for a in range(len(ATOMS)):
                    if tier == "quick" and a % 3 and ATOMS[a][0] not in ("str-esc-backslash-end", "str-cont", "fstr-nested-dq"):
                        continue
                    out.append({"t": [t1, t2], "a": [a, a]})
        return out

    def setup_worker(self):
        self.scratch = Scratch("c14")
        self.project = Project(self.scratch.new(), ropefolder=None)

    def run(self, case):
        res = {"n": 0, "nt": [], "out": {}, "mech": {}, "fails": [], "passfeat": []}
        a0, a1 = ATOMS[case["a"][0]][1], ATOMS[case["a"][1]][1]
        src = "".join(TEMPLATES[t][1].format(a0, a1) for t in case["t"])
        try:
            toks = tokens(src)
            tree = ast.parse(src)
        except (tokenize.TokenError, SyntaxError, IndentationError, ValueError):
            res["n"] = 1
            res["out"]["invalid-text"] = 1
            return res
        feats0 = ["template:" + TEMPLATES[t][0] for t in case["t"]] + ["atom:" + ATOMS[i][0] for i in set(case["a"])] + ["ntemplates:%d" % len(case["t"])]
        ls = line_starts(src)

        def off(pos):
            return ls[pos[0] - 1] + pos[1]

        def fail(kind, ef, detail):
            res["fails"].append({"kind": kind, "features": sorted(set(feats0 + ef)), "size": len(src), "detail": dict(detail, text=src), "case": case})
        nontrivial = any(t.type in (tokenize.STRING, tokenize.COMMENT) or t.type == getattr(tokenize, "FSTRING_START", -1) for t in toks) or "\\\n" in src
        if nontrivial:
            res["nt"].append(h8(src))
        # ---- expected ignored regions
        expected = []
        depth = 0
        fstart = None
        FS, FE = getattr(tokenize, "FSTRING_START", -1), getattr(tokenize, "FSTRING_END", -2)
        for t in toks:
            if t.type == FS:
                if depth == 0:
                    fstart = off(t.start)
                depth += 1
            elif t.type == FE:
                depth -= 1
                if depth == 0:
                    expected.append((fstart, off(t.start) + len(t.string), "fstring"))
            elif depth == 0 and t.type == tokenize.STRING:
                # the end is derived from the token text: CPython 3.12.1 reports a wrong end column for a string that
                # continues on a second line when non-ASCII characters precede it on its first line
                expected.append((off(t.start), off(t.start) + len(t.string), "string"))
            elif depth == 0 and t.type == tokenize.COMMENT:
                expected.append((off(t.start), off(t.start) + len(t.string), "comment"))
        res["n"] += 1
        try:
            got = [(s, e) for s, e, g in simplify.ignored_regions(src)]
        except Exception as e:
            fail("internal:" + type(e).__name__, ["in:ignored_regions"], {"exception": repr(e)})
            got = None
        if got is not None and sorted(got) != sorted((s, e) for s, e, k in expected):
            miss = [x for x in expected if (x[0], x[1]) not in got]
            extra = [x for x in got if x not in [(s, e) for s, e, k in expected]]
            ef = ["region-missing:" + k for s, e, k in miss] + (["region-extra"] if extra else [])
            for s, e in extra:
                for s2, e2, k in expected:
                    if e == e2 and s < s2:
                        ef.append("region-starts-early:" + k)
                    if s == s2 and e != e2:
                        ef.append("region-ends-wrong:" + k)
            fail("ignored-regions-differ", ef, {"rope": sorted(got), "tokenizer": expected})
        res["mech"]["ignored_regions"] = 1
        # ---- real_code
        res["n"] += 1
        try:
            rc = simplify.real_code(src)
        except Exception as e:
            fail("internal:" + type(e).__name__, ["in:real_code"], {"exception": repr(e)})
            rc = None
        if rc is not None:
            if len(rc) != len(src):
                fail("real-code-length-differs", [], {"real_code": rc})
            else:
                inside = [False] * len(src)
                for s, e, k in expected:
                    for i in range(s, e):
                        inside[i] = True
                bad = [i for i in range(len(src)) if not inside[i] and rc[i] != src[i]
                       and not (src[i] in "\t;\\\n" and rc[i] in " \n")]
                if bad:
                    fail("real-code-changes-code", ["changed-char:" + repr(src[bad[0]])], {"offset": bad[0], "real_code": rc})
        res["mech"]["real_code"] = 1
        # ---- line index
        res["n"] += 1
        try:
            sla = codeanalyze.SourceLinesAdapter(src)
            plines = src.split("\n")
            nlines = sla.length()
            okl = True
            for l in range(1, nlines + 1):
                if sla.get_line(l) != plines[l - 1] or sla.get_line_number(sla.get_line_start(l)) != l or sla.get_line_end(l) != ls[l - 1] + len(plines[l - 1]):
                    okl = False
                    fail("line-index-differs", ["for:line"], {"line": l, "rope_line": sla.get_line(l), "start": sla.get_line_start(l), "end": sla.get_line_end(l)})
                    break
            if okl:
                for o in range(len(src)):
                    l = sla.get_line_number(o)
                    if not (sla.get_line_start(l) <= o <= sla.get_line_end(l)) or l != src.count("\n", 0, o) + 1:
                        fail("line-index-differs", ["for:offset"], {"offset": o, "rope_line": l, "expected": src.count("\n", 0, o) + 1})
                        break
        except Exception as e:
            fail("internal:" + type(e).__name__, ["in:SourceLinesAdapter"], {"exception": repr(e)})
        res["mech"]["SourceLinesAdapter"] = 1
        # ---- logical lines
        res["n"] += 1
        logical = []
        start = None
        for t in toks:
            if t.type in (tokenize.NL, tokenize.COMMENT, tokenize.INDENT, tokenize.DEDENT, tokenize.ENDMARKER, tokenize.ENCODING):
                continue
            if start is None:
                start = t.start[0]
            if t.type == tokenize.NEWLINE:
                logical.append((start, t.start[0]))
                start = None
        if start is not None:
            logical.append((start, toks[-2].start[0] if len(toks) > 1 else start))
        try:
            mod = libutils.get_string_module(self.project, src)
            for (s, e) in logical:
                for l in range(s, e + 1):
                    got = tuple(mod.logical_lines.logical_line_in(l))
                    if got != (s, e):
                        ef = ["logical:multi-line" if e > s else "logical:single-line"]
                        fail("logical-line-differs", ef, {"line": l, "rope": got, "tokenizer": (s, e)})
                        raise StopIteration
        except StopIteration:
            pass
        except Exception as e:
            fail("internal:" + type(e).__name__, ["in:logical_lines"], {"exception": repr(e)})
        res["mech"]["logical_lines"] = 1
        # ---- worder
        res["n"] += 1
        try:
            w = worder.Worder(src, True)
            depth = 0
            chains = {}
            for node in ast.walk(tree):
                if isinstance(node, (ast.Name, ast.Attribute)) and hasattr(node, "end_col_offset"):
                    line = src.split("\n")[node.end_lineno - 1]
                    endc = len(line.encode("utf-8")[:node.end_col_offset].decode("utf-8"))
                    seg = ast.get_source_segment(src, node)
                    if seg is not None:
                        chains[ls[node.end_lineno - 1] + endc] = seg
            stop = False
            for t in toks:
                if t.type == FS:
                    depth += 1
                elif t.type == FE:
                    depth -= 1
                if stop or depth or t.type != tokenize.NAME or keyword.iskeyword(t.string):
                    continue
                s, e = off(t.start), off(t.end)
                for o in range(s, e):
                    if w.get_word_at(o) != t.string:
                        fail("word-at-differs", [], {"offset": o, "rope": w.get_word_at(o), "token": t.string})
                        stop = True
                        break
                    if tuple(w.get_word_range(o)) != (s, e):
                        fail("word-range-differs", [], {"offset": o, "rope": tuple(w.get_word_range(o)), "token": (s, e)})
                        stop = True
                        break
                if not stop and e in chains:
                    want = "".join(chains[e].split())
                    gotp = "".join(w.get_primary_at(e - 1).split())
                    if gotp != want and gotp.strip("()") != want.strip("()"):
                        ef = ["primary:contains-call" if "(" in want else "primary:plain-chain"]
                        fail("primary-differs", ef, {"offset": e - 1, "rope": w.get_primary_at(e - 1), "ast": chains[e]})
                        stop = True
        except Exception as e:
            fail("internal:" + type(e).__name__, ["in:worder"], {"exception": repr(e)})
        res["mech"]["worder"] = 1
        res["out"]["text-ok" if not res["fails"] else "text-bad"] = 1
        res["sample"] = {"text": src}
        return res


CHECK = C14()
