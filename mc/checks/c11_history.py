"""C11 - undo and redo are exact inverses over any history of changes.

Explicit-state exploration where a state is the event history that reaches it: every sequence
of events do(c)/undo()/redo()/undo(change=i)/redo(change=i)/undo(drop=True) up to depth d, for
each history limit, is replayed on a fresh real Project; after the last event the real tree and
the real history lists are compared with a dictionary reference model (TreeModel + two lists),
and for selective undo with the declarative oracle of the property: base snapshot + the
remaining changes replayed in order ("never having made them")."""
import itertools

from rope.base import change, exceptions
from rope.base.project import Project

from ..core import Check, h8
from ..fsutil import DIR, Scratch, TreeModel, show, snap
from .c10_atomic import apply_model

INIT = {"a.py": b"A = 1\n", "b.py": b"B = 2\n", "d": DIR, "d/a.py": b"DA = 3\n", "d2": DIR, "d2/b.py": b"D2B = 4\n",
        "junk.pyc": b"junk\n", "junk2.pyc": b"junk2\n"}     # matched by the default ignored_resources

# candidate do-events; each is a list of primitive ops (one ChangeSet); enabled by the model
DO_EVENTS = [
    [("W", "a.py")], [("W", "d/a.py")], [("W", "c.py")], [("W", "g/a.py")], [("W", "e/a.py")], [("W", "n.py")],
    [("CF", "", "n.py")], [("CF", "d", "n.py")], [("CD", "", "e")],
    [("MV", "a.py", "c.py")], [("MV", "c.py", "a.py")], [("MV", "d", "g")], [("MV", "a.py", "e/a.py")], [("MV", "b.py", "a.py")],
    [("RM", "b.py")], [("RM", "d")],
    [("CD", "", "e"), ("MV", "a.py", "e/a.py")], [("W", "a.py"), ("W", "b.py")],
    # a content change that switches the file from LF to CRLF line ends (the text itself contains \r\n)
    [("WCR", "a.py")],
    # a change in a sibling folder whose name starts with the name of folder d; a change set without any change
    [("W", "d2/b.py")], [],
    # a change set touching an ordinary and an ignored file (recorded), one touching only the ignored file (not recorded)
    [("W", "a.py"), ("W", "junk.pyc")], [("W", "junk2.pyc")],
]
DO_SMALL = [DO_EVENTS[i] for i in (0, 1, 2, 6, 8, 9, 11, 12, 16, 18)]


def convention(data):
    return b"\r\n" if b"\r\n" in data else b"\r" if b"\r" in data else b"\n"


def touched(ops):
    out = set()
    for o in ops:
        if o[0] in ("W", "WCR", "RM"):
            out.add(o[1])
        elif o[0] in ("CF", "CD"):
            out.add((o[1] + "/" if o[1] else "") + o[2])
        elif o[0] == "MV":
            out.add(o[1])
            out.add(o[2])
    return out


def related(p, q):
    return p == q or q.startswith(p + "/") or p.startswith(q + "/")


class Entry:
    def __init__(self, label, ops, step):
        self.label = label
        self.ops = ops
        self.step = step
        self.touched = touched(ops)
        self.writes = {}      # path -> old contents
        self.written = {}     # path -> bytes written when first done
        self.has_rm = any(o[0] == "RM" for o in ops)

    def content(self, path, crlf=False):
        if crlf:
            return ("%s#%d\r\nz = 0\r\n" % (path, self.step)).encode()
        return ("%s#%d\n" % (path, self.step)).encode()

    def apply(self, m, first):
        """Apply forward on TreeModel m; returns False if infeasible."""
        for o in self.ops:
            if o[0] in ("W", "WCR"):
                if not m.is_file(o[1]):
                    return False
                if o[0] == "WCR" and first is not None and convention(m.t[o[1]]) != b"\n" and o[1] not in self.written:
                    return False    # text with \r\n is only given to a file that has LF line ends
                if first:
                    self.writes[o[1]] = m.t[o[1]]
                    # new text is stored with the line-end convention the file has when the change is first done
                    self.written[o[1]] = self.content(o[1], o[0] == "WCR") if o[0] == "WCR" else self.content(o[1]).replace(b"\n", convention(m.t[o[1]]))
                m.write(o[1], self.written.get(o[1], self.content(o[1], o[0] == "WCR")))
            elif not apply_model(m, o):
                return False
        return True

    def revert(self, m):
        for o in reversed(self.ops):
            k = o[0]
            if k in ("W", "WCR"):
                m.write(o[1], self.writes[o[1]])
            elif k in ("CF", "CD"):
                m.remove((o[1] + "/" if o[1] else "") + o[2])
            elif k == "MV":
                m.move(o[2], o[1])
            elif k == "RM":
                raise NotImplementedError


class HistModel:
    def __init__(self, limit):
        self.tree = TreeModel(INIT)
        self.base = TreeModel(INIT)
        self.undo = []
        self.redo = []
        self.limit = limit
        self.step = 0

    def closure(self, lst, idx):
        acc = set(lst[idx].touched)
        res = [lst[idx]]
        for e in lst[idx + 1:]:
            if any(related(p, q) for p in e.touched for q in acc):
                res.append(e)
                acc |= e.touched
        return res

    def enabled_events(self, do_events):
        evs = []
        for ops in do_events:
            m = self.tree.copy()
            e = Entry("x", ops, 0)
            if e.apply(m, False):
                evs.append(("do", ops))
        evs.append(("undo",))
        evs.append(("redo",))
        for i in range(len(self.undo) - 1):
            evs.append(("undo_sel", i))
        for i in range(len(self.redo) - 1):
            evs.append(("redo_sel", i))
        if self.undo:
            evs.append(("undo_drop",))
        return evs


def build_changeset(project, label, entry, model_tree):
    cs = change.ChangeSet(label)
    m = model_tree.copy()
    for o in entry.ops:
        k = o[0]
        if k in ("W", "WCR"):
            cs.add_change(change.ChangeContents(project.get_file(o[1]), entry.content(o[1], k == "WCR").decode()))
        elif k == "CF":
            cs.add_change(change.CreateFile(project.get_folder(o[1]) if o[1] else project.root, o[2]))
        elif k == "CD":
            cs.add_change(change.CreateFolder(project.get_folder(o[1]) if o[1] else project.root, o[2]))
        elif k == "MV":
            res = project.get_folder(o[1]) if m.is_dir(o[1]) else project.get_file(o[1])
            cs.add_change(change.MoveResource(res, o[2], exact=True))
        elif k == "RM":
            res = project.get_folder(o[1]) if m.is_dir(o[1]) else project.get_file(o[1])
            cs.add_change(change.RemoveResource(res))
        if k not in ("W", "WCR"):
            apply_model(m, o)
    return cs


def ev_str(ev):
    if ev[0] == "do":
        return "do[" + ",".join(":".join(o) for o in ev[1]) + "]"
    return ev[0] + ("(%d)" % ev[1] if len(ev) > 1 else "")


class Runner:
    """Replays one event sequence on a fresh real project and on the model."""

    def __init__(self, scratch, limit, triage=False):
        self.scratch = scratch
        self.limit = limit

    def replay(self, events):
        """Returns (model, verdict) where verdict is None or (kind, feats, detail). Only the last
        event is judged (its prefix was judged when it was a leaf)."""
        root = self.scratch.new(INIT)
        p = Project(root, ropefolder=None, max_history_items=self.limit)
        m = HistModel(self.limit)
        verdict = None
        try:
            for n, ev in enumerate(events):
                last = n == len(events) - 1
                v = self.step(p, m, ev, root, last)
                if v is not None:
                    verdict = v
                    break
        finally:
            p.close()
            self.scratch.drop(root)
        return m, verdict

    def step(self, p, m, ev, root, judge):
        h = p.history
        kind = ev[0]
        feats = ["last:" + kind, "limit:%d" % m.limit]
        exc = None
        ret = None
        before_real = snap(root) if judge else None
        lists_before = ([c.description for c in h.undo_list], [c.description for c in h.redo_list]) if judge else None
        expect_refusal = False
        undone = redone = None
        # ---- model transition
        if kind == "do":
            m.step += 1
            e = Entry("c%d" % m.step, ev[1], m.step)
            cs = build_changeset(p, e.label, e, m.tree)
            ok = e.apply(m.tree, True)
            assert ok
            feats += ["do:" + o[0] for o in ev[1]]
            if len(ev[1]) > 1:
                feats.append("do:multi")
            if ev[1] and any(not o[1].endswith(".pyc") for o in ev[1]):
                m.undo.append(e)      # a change set that touches no (non-ignored) resource is performed but not recorded
            else:
                feats.append("do:empty" if not ev[1] else "do:ignored-only")
                e.apply(m.base, False)      # its effect stays for good: it belongs to the base of the "never made" oracle
            while len(m.undo) > max(m.limit, 0):
                old = m.undo.pop(0)
                old.apply(m.base, False)
                feats.append("limit-dropped")
            m.redo = []
            call = lambda: p.do(cs)
        elif kind in ("undo", "undo_sel", "undo_drop"):
            if not m.undo:
                expect_refusal = True
            else:
                idx = ev[1] if kind == "undo_sel" else len(m.undo) - 1
                undone = m.closure(m.undo, idx)
                feats.append("closure:%d" % len(undone))
                if any(e.has_rm for e in undone):
                    feats.append("undo-includes:RM")
                for e in undone:
                    m.undo.remove(e)
                if not any(e.has_rm for e in undone):
                    for e in reversed(undone):
                        e.revert(m.tree)
                    if kind != "undo_drop":
                        m.redo.extend(reversed(undone))
                    else:
                        # changes waiting in the redo list that were made on top of a dropped change lose their basis:
                        # they leave the redo list together with it (transitively, newest first)
                        gone = set(a for d_ in undone for a in d_.touched)
                        for r in reversed(list(m.redo)):
                            if any(related(a, b) for a in gone for b in r.touched):
                                m.redo.remove(r)
                                gone |= set(r.touched)
            if kind == "undo_sel":
                target = h.undo_list[ev[1]] if ev[1] < len(h.undo_list) else None
                call = lambda: h.undo(change=target)
            elif kind == "undo_drop":
                call = lambda: h.undo(drop=True)
            else:
                call = lambda: h.undo()
        else:  # redo, redo_sel
            if not m.redo:
                expect_refusal = True
            else:
                idx = ev[1] if kind == "redo_sel" else len(m.redo) - 1
                redone = m.closure(m.redo, idx)
                feats.append("closure:%d" % len(redone))
                for e in redone:
                    m.redo.remove(e)
                if any(getattr(e, "orphan", False) for e in redone):
                    feats.append("redo-of-a-change-whose-basis-was-dropped")
                    m.tainted = True
                for e in reversed(redone):
                    if not e.apply(m.tree, False):
                        feats.append("model-redo-infeasible")
                    m.undo.append(e)
            if kind == "redo_sel":
                target = h.redo_list[ev[1]] if ev[1] < len(h.redo_list) else None
                call = lambda: h.redo(change=target)
            else:
                call = lambda: h.redo()
        if getattr(m, "tainted", False) and "redo-of-a-change-whose-basis-was-dropped" not in feats:
            feats.append("after-redo-of-a-change-whose-basis-was-dropped")
        # ---- real transition
        try:
            ret = call()
        except Exception as e_:
            exc = e_
        if not judge:
            if exc is not None and not expect_refusal:
                return ("prefix-raised", feats, {"exception": repr(exc)})
            return None
        real = snap(root)
        detail = {"exception": repr(exc) if exc else None}
        if expect_refusal:
            if not isinstance(exc, exceptions.HistoryError):
                return ("no-refusal-on-empty", feats, detail)
            if real != before_real or lists_before != ([c.description for c in h.undo_list], [c.description for c in h.redo_list]):
                return ("refusal-had-effect", feats, detail)
            return None
        if undone is not None and any(e.has_rm for e in undone):
            # RemoveResource cannot be undone (documented TODO): must be refused without effect
            if exc is None:
                return ("rm-undo-not-refused", feats, detail)
            if real != before_real:
                return ("tree-differs", feats + ["rm-undo-refusal"], dict(detail, expected=show(before_real), got=show(real)))
            return ("stop", feats, None)   # model and implementation part ways here: do not extend
        if exc is not None:
            return ("raised:" + type(exc).__name__, feats, detail)
        want = m.tree.t
        if real != want:
            return ("tree-differs", feats, dict(detail, expected=show(want), got=show(real)))
        # declarative oracle: base + remaining changes replayed == tree
        decl = m.base.copy()
        feasible = True
        for e in m.undo:
            if not e.apply(decl, False):
                feasible = False
                break
        if feasible and decl.t != real:
            return ("not-as-if-never-made", feats, dict(detail, expected=show(decl.t), got=show(real)))
        if not feasible:
            feats.append("declarative-undefined")
        lu = [c.description for c in h.undo_list]
        lr = [c.description for c in h.redo_list]
        if lu != [e.label for e in m.undo] or lr != [e.label for e in m.redo]:
            k = "history-order-differs" if sorted(lu) == sorted(e.label for e in m.undo) and sorted(lr) == sorted(e.label for e in m.redo) else "history-differs"
            return (k, feats, dict(detail, undo=lu, redo=lr, want_undo=[e.label for e in m.undo], want_redo=[e.label for e in m.redo]))
        if len(lu) > max(m.limit, 0):
            return ("limit-exceeded", feats, dict(detail, undo=lu))
        if kind == "do" and lr:
            return ("redo-not-cleared", feats, detail)
        if undone is not None and kind != "do":
            got = sorted(c.description for c in ret)
            if got != sorted(e.label for e in undone):
                return ("returned-changes-differ", feats, dict(detail, got=got, want=sorted(e.label for e in undone)))
        if redone is not None:
            got = sorted(c.description for c in ret)
            if got != sorted(e.label for e in redone):
                return ("returned-changes-differ", feats, dict(detail, got=got, want=sorted(e.label for e in redone)))
        self.feats = feats
        return None


class C11(Check):
    pid = "C11"
    case_timeout = 600
    budget_thorough = 1800
    level = "model_checking"
    rule = ("states are event histories: all sequences of do(c) (23 change shapes over {a.py,b.py,d/,d/a.py,e/}, incl. "
            "two-step sets and removals), undo(), redo(), undo(change=undo_list[i]), redo(change=redo_list[i]), undo(drop=True) "
            "enabled in the reference model, to depth d, for max_history_items in {0,1,2,32}; each sequence is replayed on a "
            "fresh real Project and its last step compared with the reference model (tree, both history lists, returned changes, "
            "limit, refusal on empty lists) and with 'base snapshot + remaining changes replayed'; non-trivial = sequences whose "
            "last event is an undo/redo/selective/drop that moved at least one change, or a do that dropped an item at the limit; "
            "distinct by event sequence; states = distinct (tree, undo labels+ops, redo labels+ops) reached")
    assumptions = ["reference model: dict tree + two lists; dependency closure = later changes sharing or containing a touched resource (10 lines, written independently)",
                   "order of redo_list after a selective undo is the documented one (last undone is first redone)",
                   "bounded depth and alphabet; contents are unique per step so a wrong restore is visible"]
    chunksize = 1
    budget_quick = 450

    def bound_text(self, tier):
        return "depth 4 for history limits {2,32}, depth 3 for limits {0,1}" if tier == "quick" else "depth 5 (full alphabet, limits {2,32}); depth 6 (9-event sub-alphabet, limit 32); depth 5 limits {0,1}"

    def cases(self, tier):
        # a case = (limit, alphabet id, depth, first event index list) ; workers expand below the first two events
        out = []
        if tier == "quick":
            plan = [(0, "full", 3), (1, "full", 3), (2, "full", 4), (32, "full", 4)]
        else:
            plan = [(0, "full", 5), (1, "full", 5), (2, "full", 5), (32, "full", 5), (32, "small", 6)]
        for limit, alpha, depth in plan:
            evs = DO_EVENTS if alpha == "full" else DO_SMALL
            m0 = HistModel(limit)
            for e1 in m0.enabled_events(evs):
                if depth >= 5:
                    # deep sub-trees are split by the index of the second event so that one case stays well below the per-case time limit
                    for k in range(8):
                        out.append({"limit": limit, "alpha": alpha, "depth": depth, "first": list(e1), "slice": [k, 8]})
                else:
                    out.append({"limit": limit, "alpha": alpha, "depth": depth, "first": list(e1)})
        return out

    def setup_worker(self):
        self.scratch = Scratch("c11")

    def run(self, case):
        import os
        triage = os.environ.get("MC_TRIAGE") == "1"
        res = {"n": 0, "nt": [], "out": {}, "mech": {}, "fails": [], "states": [], "trans": 0, "traces": 0, "passfeat": []}
        limit, depth = case["limit"], case["depth"]
        evs = DO_EVENTS if case["alpha"] == "full" else DO_SMALL
        runner = Runner(self.scratch, limit)
        def norm(ev):
            ev = list(ev)
            if ev[0] == "do":
                return ("do", [tuple(o) for o in ev[1]])
            return tuple(ev)
        first = norm(case["first"])
        stack = [[norm(e) for e in case["exact"]]] if "exact" in case else [[first]]
        while stack:
            seq = stack.pop()
            m, verdict = runner.replay(seq)
            if len(seq) == 1 and case.get("slice", [0])[0] > 0:
                verdict = None       # the root of a sliced sub-tree is judged in slice 0
            else:
                res["n"] += 1
                res["trans"] += 1
                res["traces"] += 1
            last = seq[-1]
            res["mech"][last[0]] = res["mech"].get(last[0], 0) + 1
            if verdict is not None:
                kind, feats, detail = verdict
                if kind == "stop":
                    res["out"]["rm-undo-refused"] = res["out"].get("rm-undo-refused", 0) + 1
                    continue
                feats = sorted(set(feats + ["ev:" + e[0] for e in seq]))
                res["fails"].append({"kind": kind, "features": feats, "size": len(seq),
                                     "detail": dict(detail or {}, sequence=[ev_str(e) for e in seq], limit=limit),
                                     "case": {"limit": limit, "alpha": case["alpha"], "depth": len(seq), "first": case["first"], "exact": [list(e) for e in seq]}})
                continue
            feats = getattr(runner, "feats", [])
            o = last[0] + (":moved" if any(f.startswith("closure:") for f in feats) else "")
            res["out"][o] = res["out"].get(o, 0) + 1
            if any(f.startswith("closure:") for f in feats) or "limit-dropped" in feats:
                res["nt"].append(h8([limit] + [ev_str(e) for e in seq]))
            if triage:
                res["passfeat"].append(sorted(set(feats + ["ev:" + e[0] for e in seq])))
            res["states"].append(h8([sorted((k, v if v == DIR else v.decode()) for k, v in m.tree.t.items()),
                                     [(e.label, e.ops) for e in m.undo], [(e.label, e.ops) for e in m.redo], limit]))
            if "exact" in case:
                continue
            if len(seq) < depth:
                nxt = m.enabled_events(evs)
                if len(seq) == 1 and "slice" in case:
                    nxt = [ev for i, ev in enumerate(nxt) if i % case["slice"][1] == case["slice"][0]]
                for ev in reversed(nxt):
                    stack.append(seq + [ev])
        res["sample"] = {"limit": limit, "first_event": ev_str(first), "depth": depth}
        return res


class C11Replay(C11):
    pass


CHECK = C11()
