"""C03 - extract method / variable preserves behaviour or is refused.

Space: host bodies = all sequences of n statement atoms (20 atoms covering definite /
conditional / loop-carried / augmented / comprehension / try / early-return / break writes)
between a fixed prelude and a final `return (a, b)`, in three host kinds (function, method,
module-level block is covered by the function host with global_), x every contiguous run of
statements at every nesting level and every sub-expression as the region x options.
Oracle: CPython - the module is executed before and after for inputs 0,1,2 and must print
the same lines (exception types included); refused => disk unchanged."""
import ast
import itertools
import os

from rope.refactor.extract import ExtractMethod, ExtractVariable

from ..core import Check, h8
from ..progx import Bench
from ..runner import compiles, run_entry

ATOMS = [
    "a = p + 1",                                                  # 0 definite write
    "b = a * 2",                                                  # 1 read a, write b
    "a += b",                                                     # 2 augmented
    "print(a, b)",                                                # 3 pure read
    "if p:\n    a = 5",                                           # 4 conditional write
    "if p:\n    b = a\nelse:\n    b = 7",                         # 5 write in both arms
    "for i in range(2):\n    a = a + i",                          # 6 loop-carried
    "while a < 3:\n    a += 1",                                   # 7 while
    "return a",                                                   # 8 early return
    "c = [a for a in range(b)]",                                  # 9 comprehension reusing a name
    "try:\n    a = 1 // p\nexcept ZeroDivisionError:\n    b = 9",  # 10 try/except
    "if p > 1:\n    return b",                                    # 11 conditional return
    "for i in range(3):\n    if i == p:\n        break\n    a += i",  # 12 break inside loop
    "b = (lambda q: q + a)(1)",                                   # 13 lambda reading a
    "a, b = b, a",                                                # 14 tuple swap
    "for i in range(2):\n    if p:\n        b = b + a\n    a = i",  # 15 read before write across iterations
    "d = a\na = d + 1",                                           # 16 new local, two statements
    "if p:\n    e = a\nb = b + 1",                                # 17 conditionally defined new local
    "c = 1\nfor i in range(3):\n    b = b + c\n    if i:\n        c = c + i",   # 18 loop-carried, conditionally rebound, dead after loop
    "for i in range(2):\n    for j in range(2):\n        a += j\n    else:\n        continue\n    b += 1",  # 19 continue in inner loop's else
    "d = [(e := q + a) for q in range(2)]\nb = b + e",            # 20 walrus inside a comprehension binds in the function
    "if p:\n    if p > 1:\n        b = b + 1\n    a = 7",          # 21 nested conditional, then a rebinding in the outer one
    "if p == 1:\n    return\na += 1",                              # 22 guard clause with a bare return
    "if p: a = 5",                                                # 23 conditional write, compound statement on one line
    "for i in range(p): b = i + 4",                               # 24 loop that may not run, on one line
]

HOSTS = {
    "function": ("def f(p):\n    a = 0\n    b = 0\n%s\n    return (a, b)\n\n\n"
                 "for v in (0, 1, 2):\n    try:\n        print(f(v))\n    except Exception as e:\n"
                 "        print('NameError' if isinstance(e, NameError) else type(e).__name__)\n", 4),
    "method": ("class C:\n    k = 10\n\n    def f(self, p):\n        a = self.k - 10\n        b = 0\n%s\n        return (a, b)\n\n\n"
               "for v in (0, 1, 2):\n    try:\n        print(C().f(v))\n    except Exception as e:\n"
               "        print('NameError' if isinstance(e, NameError) else type(e).__name__)\n", 8),
}


# the same body again in a classmethod, a staticmethod and a regular method of the class: similar=True finds exact copies
# of every region there, in a context with the same live variables
SIBLINGS = ("class C:\n    k = 10\n\n    def f(self, p):\n        a = self.k - 10\n        b = 0\n%s\n        return (a, b)\n\n"
            "    @classmethod\n    def g(cls, p):\n        a = 0\n        b = 0\n%s\n        return (a, b)\n\n"
            "    @staticmethod\n    def h(p):\n        a = 0\n        b = 0\n%s\n        return (a, b)\n\n"
            "    def r(self, p):\n        a = 0\n        b = 0\n%s\n        return (a, b)\n\n\n"
            "for v in (0, 1, 2):\n    try:\n        print(C().f(v), C.g(v), C.h(v), C().r(v))\n    except Exception as e:\n"
            "        print('NameError' if isinstance(e, NameError) else type(e).__name__)\n")
HOSTS["siblings"] = (SIBLINGS, 8)
# statements directly at module level (inside a loop over the inputs): the extracted function is a global one placed before the loop
# statements directly in the module body, one host per input value (p is bound by a walrus in the prelude)
for _v in (0, 1, 2):
    HOSTS["flat%d" % _v] = ("a = 0\nb = 0 * (p := %d)\n%%s\nprint((a, b))\n" % _v, 0)
HOSTS["module"] = ("for p in (0, 1, 2):\n    a = 0\n    b = 0\n%s\n    print((a, b))\n", 4)


def indent(s, n):
    return "\n".join(" " * n + l for l in s.split("\n"))


def build(host, atom_ids):
    tmpl, ind = HOSTS[host]
    body = "\n".join(indent(ATOMS[i], ind) for i in atom_ids)
    return tmpl % ((body,) * tmpl.count("%s"))


def line_offsets(src):
    offs = [0]
    for l in src.split("\n"):
        offs.append(offs[-1] + len(l) + 1)
    return offs


def off(offs, lineno, col, src_lines):
    # ast columns are utf-8 byte offsets; sources here are ASCII
    return offs[lineno - 1] + col


def find_f(tree):
    for n in ast.walk(tree):
        if isinstance(n, ast.FunctionDef) and n.name == "f":
            return n
    if isinstance(tree.body[0], ast.For):
        return tree.body[0]     # module host: the loop over the inputs
    return tree                 # flat host: the module body itself


def stmt_lists(node):
    """Yield every statement list below (and including) the function body."""
    for field in ("body", "orelse", "finalbody"):
        lst = getattr(node, field, None)
        if isinstance(lst, list) and lst and isinstance(lst[0], ast.stmt):
            yield lst
            for s in lst:
                yield from stmt_lists(s)
    for h in getattr(node, "handlers", []) or []:
        yield from stmt_lists(h)


def regions(src, atom_ids, host):
    """[(kind, start, end, feats)] for every statement run and every expression."""
    tree = ast.parse(src)
    f = find_f(tree)
    offs = line_offsets(src)
    lines = src.split("\n")
    ind = HOSTS[host][1]
    # map top-level statements of f to atom indexes
    top = f.body
    owner = {}
    pos = 2
    for k, aid in enumerate(atom_ids):
        nst = len(ast.parse(ATOMS[aid].replace("return", "pass #") if False else "def _():\n" + indent(ATOMS[aid], 4)).body[0].body)
        for j in range(nst):
            owner[id(top[pos + j])] = k
        pos += nst
    out = []

    def wild(pn, n):
        """rope-style similarity: every identifier of the pattern is a wildcard for any expression"""
        if isinstance(pn, ast.Name):
            return isinstance(n, ast.expr)
        if type(pn) is not type(n):
            return False
        for field, pv in ast.iter_fields(pn):
            nv = getattr(n, field, None)
            if isinstance(pv, list):
                if not isinstance(nv, list) or len(pv) != len(nv):
                    return False
                for a_, b_ in zip(pv, nv):
                    if isinstance(a_, ast.AST):
                        if not wild(a_, b_):
                            return False
                    elif a_ != b_:
                        return False
            elif isinstance(pv, ast.AST):
                if isinstance(pv, (ast.expr_context, ast.operator, ast.cmpop, ast.boolop, ast.unaryop)):
                    if type(pv) is not type(nv) and not isinstance(pv, ast.expr_context):
                        return False
                elif not isinstance(nv, ast.AST) or not wild(pv, nv):
                    return False
            elif pv != nv:
                return False
        return True

    in_f = {id(n) for n in ast.walk(f)}
    in_any_function = {id(n) for fn in ast.walk(tree) if isinstance(fn, (ast.FunctionDef, ast.Lambda)) for n in ast.walk(fn)}
    class_level_exprs = [x for c in ast.walk(tree) if isinstance(c, ast.ClassDef) for st in c.body if not isinstance(st, ast.FunctionDef)
                         for x in ast.walk(st) if isinstance(x, ast.expr)]
    all_lists = list(stmt_lists(tree))
    all_exprs = [n for n in ast.walk(tree) if isinstance(n, ast.expr)]

    def twin(stmts):
        """None / 'exact' (every other match is a textual copy of the region) / 'wild'"""
        k = len(stmts)
        found = None
        for lst_ in all_lists:
            for i_ in range(len(lst_) - k + 1):
                cand = lst_[i_:i_ + k]
                if cand[0] is stmts[0]:
                    continue
                if all(wild(a_, b_) for a_, b_ in zip(stmts, cand)):
                    if all(ast.dump(a_) == ast.dump(b_) for a_, b_ in zip(stmts, cand)):
                        if id(cand[0]) in in_f:
                            found = found if found == "wild" else "exact"
                        else:
                            found = found or "sibling"
                    else:
                        found = "wild"
        return found

    def twin_expr(e):
        found = None
        for x in all_exprs:
            if x is not e and wild(e, x):
                if ast.dump(x) == ast.dump(e):
                    if id(x) in in_f:
                        found = found if found == "wild" else "exact"
                    else:
                        found = found or "sibling"
                else:
                    found = "wild"
        return found

    def top_index(stmt):
        for i, t in enumerate(top):
            if t is stmt or any(n is stmt for n in ast.walk(t)):
                return i
        return None

    def role_feats(i0, i1, nested_in=None):
        feats = []
        for i, t in enumerate(top):
            k = owner.get(id(t))
            if k is None:
                continue
            name = "A%d" % atom_ids[k]
            if nested_in is not None and i == nested_in:
                feats.append("within:" + name)
            elif i < i0:
                feats.append("pre:" + name)
            elif i > i1:
                feats.append("post:" + name)
            else:
                feats.append("in:" + name)
        return feats

    for lst in stmt_lists(f):
        is_top = lst is top
        for i in range(len(lst)):
            for j in range(i, len(lst)):
                s, e = lst[i], lst[j]
                start = off(offs, s.lineno, s.col_offset, lines)
                end = off(offs, e.end_lineno, e.end_col_offset, lines)
                if is_top:
                    feats = role_feats(i, j) + ["region:top"]
                    if i <= 1:
                        feats.append("region:includes-prelude")
                    if j == len(lst) - 1:
                        feats.append("region:includes-final-return")
                else:
                    ti = top_index(s)
                    feats = role_feats(ti, ti, nested_in=ti) + ["region:nested"]
                    if len(lst) == j - i + 1:
                        feats.append("region:whole-block")
                feats.append("stmts:%d" % (j - i + 1))
                run = lst[i:j + 1]
                # (a) a variable assigned only on some path of one statement of the region and read inside another compound
                #     statement of the region (the value from before the region may still be needed there)
                maybe, definite = set(), set()
                for st in run:
                    loads = {n.id for n in ast.walk(st) if isinstance(n, ast.Name) and isinstance(n.ctx, ast.Load)}
                    loads |= {n.target.id for n in ast.walk(st) if isinstance(n, ast.AugAssign) and isinstance(n.target, ast.Name)}
                    if hasattr(st, "body") and loads & (maybe - definite):
                        feats.append("region:compound-statement-reads-a-variable-assigned-conditionally-earlier-in-the-region")
                    stores = {n.id for n in ast.walk(st) if isinstance(n, ast.Name) and isinstance(n.ctx, ast.Store)}
                    if isinstance(st, ast.Assign):
                        definite |= stores
                    elif hasattr(st, "body"):
                        maybe |= stores
                # (b) the region lies in a loop and assigns a variable that the loop reads before the region (next iteration)
                for loop in ast.walk(f):
                    if isinstance(loop, (ast.For, ast.While)) and any(x is run[0] for x in ast.walk(loop)) and loop is not run[0]:
                        stores = {n.id for st in run for n in ast.walk(st) if isinstance(n, ast.Name) and isinstance(n.ctx, ast.Store)}
                        before = [n for n in ast.walk(loop) if isinstance(n, ast.Name) and isinstance(n.ctx, ast.Load) and n.lineno < run[0].lineno]
                        if stores & {n.id for n in before}:
                            feats.append("region:in-a-loop-and-assigns-a-variable-read-earlier-in-the-loop")
                # (c) a name that has no value before the region, is bound in the region only inside a compound statement
                #     (a loop target, a branch) and is read by the statements after the region (after they rebind it)
                if is_top:
                    cond = {n.id for st in run if hasattr(st, "body") for n in ast.walk(st) if isinstance(n, ast.Name) and isinstance(n.ctx, ast.Store)}
                    # (only plain assignments count as bindings that certainly happened before the region)
                    earlier = {n.id for st in lst[:i] if isinstance(st, (ast.Assign, ast.AugAssign)) for n in ast.walk(st)
                               if isinstance(n, ast.Name) and isinstance(n.ctx, ast.Store)} | {"p", "self", "cls"}
                    later = {n.id for st in lst[j + 1:] for n in ast.walk(st) if isinstance(n, ast.Name) and isinstance(n.ctx, ast.Load)}
                    if (cond - definite - earlier) & later:
                        feats.append("region:binds-a-new-name-only-inside-a-compound-statement-and-later-statements-rebind-and-read-it")
                if host == "module" or host.startswith("flat"):
                    # module-level code: every variable is a global; does the region assign one that it also reads,
                    # or that it assigns only on some paths / in a nested block?
                    stored = {n.id for st in lst[i:j + 1] for n in ast.walk(st) if isinstance(n, ast.Name) and isinstance(n.ctx, ast.Store)}
                    loaded = {n.id for st in lst[i:j + 1] for n in ast.walk(st) if isinstance(n, ast.Name) and isinstance(n.ctx, ast.Load)}
                    loaded |= {st.target.id for st in lst[i:j + 1] for st in ast.walk(st) if isinstance(st, ast.AugAssign) and isinstance(st.target, ast.Name)}
                    definite = set()
                    for st in lst[i:j + 1]:
                        if isinstance(st, ast.Assign):
                            definite |= {n.id for t_ in st.targets for n in ast.walk(t_) if isinstance(n, ast.Name)}
                    if stored & loaded or stored - definite:
                        feats.append("module-level:assigns-a-global-it-reads-or-assigns-only-conditionally")
                tw = twin(lst[i:j + 1])
                if tw == "wild":
                    feats.append("similar:other-match-exists")
                elif tw == "exact":
                    feats.append("similar:only-exact-copies-exist")
                elif tw == "sibling":
                    feats.append("similar:only-copies-in-sibling-methods")
                out.append(("stmts", start, end, feats))
    # expressions
    for t in top:
        for node in ast.walk(t):
            for field, val in ast.iter_fields(node):
                vals = val if isinstance(val, list) else [val]
                for v in vals:
                    if isinstance(v, ast.expr) and not isinstance(getattr(v, "ctx", None), (ast.Store, ast.Del)):
                        if isinstance(v, (ast.Starred,)):
                            continue
                        start = off(offs, v.lineno, v.col_offset, lines)
                        end = off(offs, v.end_lineno, v.end_col_offset, lines)
                        ti = top_index(t)
                        feats = role_feats(ti, ti, nested_in=ti) + ["region:expr", "expr:" + type(v).__name__,
                                                                     "expr-parent:%s.%s" % (type(node).__name__, field)]
                        anc = []
                        for a in ast.walk(t):
                            if any(c is v for c in ast.walk(a)) and a is not v:
                                anc.append(type(a).__name__)
                        for a in sorted(set(anc)):
                            if a in ("Lambda", "ListComp", "While", "For", "If", "BoolOp", "IfExp", "Try"):
                                feats.append("expr-under:" + a)
                        if any(wild(v, x) for x in class_level_exprs):
                            feats.append("similar:match-in-class-body")
                        tw = twin_expr(v)
                        if tw == "wild":
                            feats.append("similar:other-match-exists")
                        elif tw == "exact":
                            feats.append("similar:only-exact-copies-exist")
                        elif tw == "sibling":
                            feats.append("similar:only-copies-in-sibling-methods")
                        used = {n.id for n in ast.walk(v) if isinstance(n, ast.Name)}
                        for a in ast.walk(t):
                            if a is v or not any(c is v for c in ast.walk(a)):
                                continue
                            if isinstance(a, ast.While) and any(c is v for c in ast.walk(a.test)):
                                feats.append("expr:in-while-test")
                            if isinstance(a, ast.Lambda) and used & {x.arg for x in a.args.args}:
                                feats.append("expr:uses-name-bound-by-lambda-or-comprehension")
                            if isinstance(a, (ast.ListComp, ast.SetComp, ast.GeneratorExp, ast.DictComp)):
                                bound = {n.id for g in a.generators for n in ast.walk(g.target) if isinstance(n, ast.Name)}
                                if used & bound and not any(c is v for g in a.generators[:1] for c in ast.walk(g.iter)):
                                    feats.append("expr:uses-name-bound-by-lambda-or-comprehension")
                            if (isinstance(a, ast.For) and a.body[0].lineno == a.lineno and any(c is v for b_ in a.body for c in ast.walk(b_))
                                    and used & {n.id for n in ast.walk(a.target) if isinstance(n, ast.Name)}):
                                feats.append("expr:on-the-header-line-of-a-one-line-for-and-uses-its-target")
                            if isinstance(a, ast.ExceptHandler) and a.type is not None and any(c is v for c in ast.walk(a.type)):
                                feats.append("expr:in-except-type")
                        out.append(("expr", start, end, feats))
    return out


class C03(Check):
    pid = "C03"
    level = "exploration"
    rule = ("cases = host bodies: every sequence of n statement atoms (25 atoms) in a function host, a method host, a module-level host and a class whose classmethod/staticmethod/regular sibling methods repeat the body; "
            "evaluations = one refactoring request per (body, region, refactoring, options): regions = every contiguous statement "
            "run at every nesting level + every sub-expression; ExtractMethod x similar{F,T} x global_{F,T} (function host) / "
            "kind{None,staticmethod?} and ExtractVariable x similar{F,T} for expressions; each performed result is compiled and "
            "run for inputs 0,1,2 and its output compared with the original's; non-trivial = requests that rope performed (source "
            "changed and executed); distinct by (source, region, refactoring, options)")
    assumptions = ["behaviour = printed lines for p in (0,1,2), exception types included (UnboundLocalError == NameError)",
                   "programs are deterministic and terminate; a run that exceeds 2 s counts as a behaviour difference"]
    chunksize = 2
    budget_quick = 450
    budget_thorough = 1200

    def bound_text(self, tier):
        return "n=2 atoms per body, all regions and options" if tier == "quick" else "n=3 atoms per body (function host), n=2 (method host)"

    def cases(self, tier):
        out = []
        n = 2 if tier == "quick" else 3
        for k in range(1, n + 1):
            for ids in itertools.product(range(len(ATOMS)), repeat=k):
                out.append({"host": "function", "atoms": list(ids)})
        for k in range(1, 3):
            for ids in itertools.product(range(len(ATOMS)), repeat=k):
                out.append({"host": "method", "atoms": list(ids)})
        for ids in [(i,) for i in range(len(ATOMS))] + [(i, j) for i in (0, 1, 3, 6, 10) for j in (1, 2, 4, 5, 12, 16)]:
            out.append({"host": "siblings", "atoms": list(ids)})
        noret = [i for i in range(len(ATOMS)) if "return" not in ATOMS[i]]
        for ids in [(i,) for i in noret] + [(i, j) for i in (0, 1, 2, 4, 6, 10, 12, 16) for j in (0, 1, 2, 4, 6, 10, 12, 16)]:
            out.append({"host": "module", "atoms": list(ids)})
        for v in (0, 1, 2):
            for ids in [(i,) for i in noret] + [(10, j) for j in noret] + [(i, 10) for i in noret]:
                out.append({"host": "flat%d" % v, "atoms": list(ids)})
        return out

    def setup_worker(self):
        self.bench = Bench("c03")

    def run(self, case):
        triage = os.environ.get("MC_TRIAGE") == "1"
        res = {"n": 0, "nt": [], "out": {}, "mech": {}, "fails": [], "refused": 0, "passfeat": []}
        host, ids = case["host"], case["atoms"]
        src = build(host, ids)
        if compiles({"xm.py": src}):
            res["out"]["invalid-host"] = 1
            res["n"] = 1
            return res
        base = run_entry({"xm.py": src}, "xm")
        if base[1] is not None:
            res["out"]["host-raises"] = 1
            res["n"] = 1
            return res
        regs = regions(src, ids, host)
        for ri, (kind, start, end, feats) in enumerate(regs):
            if kind == "stmts":
                if host in ("siblings", "module") or host.startswith("flat"):
                    variants = [("method", dict(similar=True)), ("method", dict(similar=False))]
                elif host == "function":
                    variants = [("method", dict(similar=s, global_=g)) for s in (False, True) for g in (False, True)]
                else:
                    variants = [("method", dict(similar=False)), ("method", dict(similar=True)), ("method", dict(global_=True)),
                                ("method", dict(kind="staticmethod")), ("method", dict(kind="classmethod"))]
            else:
                variants = [("variable", dict(similar=False)), ("variable", dict(similar=True)), ("method", dict(similar=False)),
                            ("method", dict(similar=True, global_=True))]
            for what, opts in variants:
                if "only" in case and [case["only"][0], case["only"][1], [tuple(kv) for kv in case["only"][2]]] != [ri, what, sorted(opts.items())]:
                    continue
                res["n"] += 1
                ctx = self.bench.open({"xm.py": src})
                try:
                    cls = ExtractMethod if what == "method" else ExtractVariable
                    status, payload = ctx.refactor(
                        lambda p: cls(p, p.get_file("xm.py"), start, end).get_changes("new_name", **opts))
                    new = ctx.tree().get("xm.py")
                finally:
                    ctx.close()
                hfeats = ["host:module-flat", "input:" + host[-1]] if host.startswith("flat") else ["host:" + host]
                if host == "module" or host.startswith("flat"):
                    hfeats.append("module-level-host")
                f2 = sorted(set(feats + hfeats + ["what:" + what] + ["opt:%s=%s" % kv for kv in sorted(opts.items())]))
                detail = {"source": src, "region": src[start:end], "start": start, "end": end, "refactoring": what, "options": opts}
                mk = "%s/%s" % (what, kind)
                res["mech"][mk] = res["mech"].get(mk, 0) + 1

                def fail(k, extra):
                    res["fails"].append({"kind": k, "features": f2, "size": len(ids) * 100 + (end - start),
                                         "detail": dict(detail, **extra),
                                         "case": dict(case, only=[ri, what, sorted(opts.items())])})
                if status == "refused":
                    res["refused"] += 1
                    res["out"]["refused"] = res["out"].get("refused", 0) + 1
                    continue
                if status != "done":
                    fail(status if status != "internal" else "internal:" + payload.split(":")[0], {"message": str(payload)})
                    continue
                if new == src:
                    res["out"]["no-op"] = res["out"].get("no-op", 0) + 1
                    continue
                res["nt"].append(h8([src, start, end, what, sorted(opts.items())]))
                bad = compiles({"xm.py": new})
                if bad:
                    fail("syntax-error", {"result": new, "message": bad[1]})
                    continue
                got = run_entry({"xm.py": new}, "xm")
                if got != base:
                    fail("behaviour-differs", {"result": new, "before": base, "after": got})
                    continue
                res["out"]["preserved"] = res["out"].get("preserved", 0) + 1
                if triage:
                    res["passfeat"].append(f2)
        res["sample"] = {"source": src, "regions": len(regs)}
        return res


CHECK = C03()
