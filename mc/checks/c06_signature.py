"""C06 - signature changes keep every call bound to the same parameter values.

Space: 8 signature shapes x 5 callable kinds (function, method called on a name / on an
attribute chain, classmethod, constructor) x every valid call shape (every positional /
keyword / default / *seq mix) at one or two call sites, in the defining module or in another
module (two import styles) x every single changer (normalise, every reordering, add at every
index with default/value/both, remove each parameter, inline each default), thorough: every
sequence of two changers.  Every function body prints its sorted locals; the expected output
after the change is the recorded output transformed structurally."""
import ast
import itertools
import os

from rope.refactor import change_signature as cs

from ..core import Check, h8
from ..progx import Bench, nth_offset
from ..runner import compiles, run_project

SIGS = [
    [("a", None)], [("a", None), ("b", None)], [("a", None), ("b", "2")], [("a", "1"), ("b", "2")],
    [("a", None), ("b", None), ("c", "3")],
    [("a", None), ("*", "args")], [("a", None), ("b", "2"), ("**", "kw")], [("a", None), ("b", "2"), ("*", "args"), ("**", "kw")],
]
KINDS = ["function", "method", "method-chain", "classmethod", "classmethod-on-instance", "ctor"]
HOSTS = ["same", "import", "from"]
BODY = "print(sorted((k, v) for k, v in locals().items() if k not in ('self', 'cls')))"


def sig_text(sig):
    out = []
    for n, d in sig:
        if n == "*":
            out.append("*" + d)
        elif n == "**":
            out.append("**" + d)
        else:
            out.append(n if d is None else "%s=%s" % (n, d))
    return ", ".join(out)


def plain(sig):
    return [(n, d) for n, d in sig if n not in ("*", "**")]


def call_shapes(sig):
    names = [n for n, _ in plain(sig)]
    nreq = sum(1 for _, d in plain(sig) if d is None)
    has_star = any(n == "*" for n, _ in sig)
    has_kw = any(n == "**" for n, _ in sig)
    vals = ["10", "20", "30"]
    out = []
    for k in range(nreq, len(names) + 1):
        for split in range(0, k + 1):
            pos = vals[:split]
            kws = ["%s=%s" % (names[i], vals[i]) for i in range(split, k)]
            out.append(", ".join(pos + kws))
            if len(kws) > 1:
                out.append(", ".join(pos + kws[::-1]))
        if k >= 1:
            out.append("*[%s]" % ", ".join(vals[:k]))
    if has_star:
        out.append(", ".join(vals[:len(names)] + ["40", "50"]))
    if has_kw:
        out.append(", ".join(vals[:nreq] + ["z=60"]))
    seen, res = set(), []
    for c in out:
        if c not in seen:
            seen.add(c)
            res.append(c)
    return res


# a non-import `from` before the call sites and an import statement after them
NOISE_BEFORE = "def gen():\n    yield from ()\n\n\ntry:\n    sent_from = 1\nexcept Exception as exc:\n    raise RuntimeError('x') from exc\n\n"
NOISE_AFTER = "\nimport xlate\nfrom xlate import late\n"


def make_project(kind, sig, calls, host, wrapped=False, noise=False):
    files, usemod = _make_project(kind, sig, calls, host, wrapped)
    if noise:
        files = dict(files)
        src = files[usemod]
        if usemod == "xd.py":
            files[usemod] = NOISE_BEFORE + src + NOISE_AFTER
        else:
            head, _, rest = src.partition("\n\n")
            files[usemod] = head + "\n\n" + NOISE_BEFORE + rest + NOISE_AFTER
        files["xlate.py"] = "late = 1\n"
    return files, usemod


def _make_project(kind, sig, calls, host, wrapped=False):
    st = sig_text(sig)
    if wrapped:
        # header wrapped over several physical lines, one parameter per line
        st = "\n        " + st.replace(", ", ",\n        ") + "\n"
    if kind == "function":
        xd = "def f(%s):\n    %s\n\n\n" % (st, BODY)
        callee = "f"
        pre = ""
    elif kind in ("method", "method-chain"):
        xd = ("class K:\n    def f(self, %s):\n        %s\n\n\nclass H:\n    def __init__(self):\n        self.k = K()\n\n\nk = K()\nh = H()\n"
              % (st, BODY))
        callee = "k.f" if kind == "method" else "h.k.f"
        pre = ""
    elif kind == "classmethod":
        xd = "class K:\n    @classmethod\n    def f(cls, %s):\n        %s\n\n\n" % (st, BODY)
        callee = "K.f"
        pre = ""
    elif kind == "classmethod-on-instance":
        xd = "class K:\n    @classmethod\n    def f(cls, %s):\n        %s\n\n\nk = K()\n" % (st, BODY)
        callee = "k.f"
        pre = ""
    else:
        xd = "class K:\n    def __init__(self, %s):\n        %s\n\n\n" % (st, BODY)
        callee = "K"
        pre = ""
    lines = "".join("%s(%s)\n" % ("%CALLEE%", c) for c in calls)
    if host == "same":
        return {"xd.py": xd + lines.replace("%CALLEE%", callee)}, "xd.py"
    if host == "import":
        return {"xd.py": xd, "xu.py": "import xd\n\n" + lines.replace("%CALLEE%", "xd." + callee)}, "xu.py"
    root = callee.split(".")[0]
    return {"xd.py": xd, "xu.py": "from xd import %s\n\n" % root + lines.replace("%CALLEE%", callee)}, "xu.py"


def changers_for(sig, shift=0):
    """[(label, factory, transform)] transform: dict(locals) -> expected dict or None if the request must be refused."""
    names = [n for n, _ in plain(sig)]
    defaults = {n: d for n, d in plain(sig)}
    n = len(names)
    out = [("normalize", lambda: cs.ArgumentNormalizer(), lambda d: d)]
    for perm in itertools.permutations(range(n)):
        if list(perm) == list(range(n)):
            continue
        new = [names[i] for i in perm]
        # legal without autodef only if no required parameter follows a defaulted one
        seen_def = False
        legal = True
        for nm in new:
            if defaults[nm] is not None:
                seen_def = True
            elif seen_def:
                legal = False
        out.append(("reorder%s" % "".join(map(str, perm)), (lambda perm=perm: cs.ArgumentReorderer(list(range(shift)) + [x + shift for x in perm])),
                    (lambda d: d) if legal else None))
        if not legal:
            out.append(("reorder%s+autodef" % "".join(map(str, perm)), (lambda perm=perm: cs.ArgumentReorderer(list(range(shift)) + [x + shift for x in perm], autodef="0")),
                        "autodef"))
    # a permutation of a proper prefix leaves the remaining parameters where they are
    for k in range(2, n):
        for perm in itertools.permutations(range(k)):
            if list(perm) == list(range(k)):
                continue
            new = [names[i] for i in perm] + names[k:]
            seen_def, legal = False, True
            for nm in new:
                if defaults[nm] is not None:
                    seen_def = True
                elif seen_def:
                    legal = False
            out.append(("reorder-prefix%s" % "".join(map(str, perm)), (lambda perm=perm: cs.ArgumentReorderer(list(range(shift)) + [x + shift for x in perm])),
                        (lambda d: d) if legal else None))
    for i in range(n + 1):
        trailing_ok = all(defaults[nm] is not None for nm in names[i:])
        out.append(("add%d:default" % i, (lambda i=i: cs.ArgumentAdder(i + shift, "n", default="7")), (lambda d: dict(d, n=7)) if trailing_ok else None))
        out.append(("add%d:value" % i, (lambda i=i: cs.ArgumentAdder(i + shift, "n", value="8")),
                    (lambda d: dict(d, n=8)) if all(defaults[nm] is None for nm in names[:i]) else None))
        out.append(("add%d:both" % i, (lambda i=i: cs.ArgumentAdder(i + shift, "n", default="7", value="8")), (lambda d: dict(d, n=8)) if trailing_ok else None))
    for i in range(n):
        out.append(("remove%d" % i, (lambda i=i: cs.ArgumentRemover(i + shift)), (lambda d, i=i: {k: v for k, v in d.items() if k != names[i]})))
        if defaults[names[i]] is not None:
            out.append(("inline-default%d" % i, (lambda i=i: cs.ArgumentDefaultInliner(i + shift)), lambda d: d))
    return out


# ---------------------------------------------------------------- IntroduceParameter
IP_SIGS = [("none", "", ["()"]), ("one", "a", ["(1)", "(a=1)"]), ("default", "a, b=2", ["(1)", "(1, 3)", "(1, b=4)"]),
           ("star", "a, *args", ["(1)", "(1, 5, 6)"]), ("dstar", "a, **kw", ["(1)", "(1, z=7)"]), ("kwonly", "a, *, k=1", ["(1)", "(1, k=8)"]),
           ("annotated", "a: int = 1", ["()", "(9)"])]
IP_EXPRS = {"global": "G", "attr": "obj.attr", "module-attr": "xlib.V", "attr-chain": "obj.inner.deep", "param-attr": "a.real", "local": "loc",
            "self-attr": "self.k", "builtin": "len", "local-subscript-attr": "lst[0].attr", "global-subscript-attr": "GL[0].attr"}
IP_BODIES = {
    "once": "    loc = 'loc'\n    lst = [obj]\n    print('f', {shown}, {e})\n",
    "twice": "    loc = 'loc'\n    first = {e}\n    print('f', {shown}, first, {e})\n",
    "in-lambda": "    loc = 'loc'\n    print('f', {shown}, (lambda: {e})())\n",
    "in-nested-def": "    loc = 'loc'\n\n    def inner():\n        return {e}\n    print('f', {shown}, inner())\n",
}
IP_KINDS = ["function", "method", "decorated", "returns-annotation", "wrapped-header"]
IP_NAMES = {"fresh": "np", "existing-parameter": "a", "existing-local": "loc"}


def ip_project(kind, sig, ek, bk):
    signame, sigtxt, calls = sig
    e = IP_EXPRS[ek]
    if ek == "param-attr" and not sigtxt:
        return None
    if ek == "self-attr" and kind != "method":
        return None
    names = [x.split(":")[0].split("=")[0].strip().lstrip("*") for x in sigtxt.split(",") if x.strip() and x.strip() != "*"]
    shown = ", ".join(names) if names else "0"
    body = IP_BODIES[bk].format(shown=shown, e=e)
    head = "import xlib\n\nG = 'xd.G'\n\n\nclass Inner:\n    deep = 'Inner.deep'\n\n\nclass Obj:\n    attr = 'Obj.attr'\n    inner = Inner()\n\n\nobj = Obj()\nGL = [obj]\n\n\ndef deco(fn):\n    return fn\n\n\n"
    if kind == "method":
        params = "self" + (", " + sigtxt if sigtxt else "")
        src = head + "class K:\n    k = 'K.k'\n\n    def f(%s):\n%s\n\n" % (params, "".join("    " + l + "\n" for l in body.splitlines()))
        callee = "K().f"
    else:
        if kind == "wrapped-header":
            hdr = "def f(\n        %s\n):\n" % sigtxt.replace(", ", ",\n        ") if sigtxt else "def f(\n):\n"
        elif kind == "returns-annotation":
            hdr = "def f(%s) -> None:\n" % sigtxt
        elif kind == "decorated":
            hdr = "@deco\ndef f(%s):\n" % sigtxt
        else:
            hdr = "def f(%s):\n" % sigtxt
        src = head + hdr + body + "\n\n"
        callee = "f"
    src += "".join("%s%s\n" % (callee, c) for c in calls)
    return {"xlib.py": "V = 'xlib.V'\n", "xd.py": src}


def parse_out(text):
    res = []
    for line in text.splitlines():
        try:
            res.append(dict(ast.literal_eval(line)))
        except Exception:
            res.append(("unparsed", line))
    return res


class C06(Check):
    pid = "C06"
    level = "exploration"
    rule = ("cases = (callable kind in {function, method on a name, method on an attribute chain, classmethod, constructor}, "
            "signature in 8 shapes (defaults, *args, **kw), header on one line or wrapped one parameter per line, host in {same module, import, from-import}, list of 1-2 call shapes "
            "from every valid positional/keyword/default/*seq/extra-positional/extra-keyword mix); evaluations = one "
            "ChangeSignature(...).get_changes([changers]) per (case, changer) over normalise, every permutation (with/without "
            "autodef) and every permutation of a proper prefix, add at every index (default / value / both), remove every parameter, inline every default; thorough: all "
            "ordered pairs of changers; each body prints its sorted locals and the output after the change must equal the "
            "recorded output transformed structurally; non-trivial = performed requests; distinct by (project, changers)")
    assumptions = ["expected outputs are the recorded outputs with the removed name dropped / the added name bound to its value or default; "
                   "a request whose resulting signature cannot be legal (required parameter after a defaulted one) must be refused",
                   "argument expressions are constants (no side effects)"]
    chunksize = 4

    def bound_text(self, tier):
        return "single changers, 1 call site (+ all 2-site pairs for functions)" if tier == "quick" else "all ordered pairs of changers, 1-2 call sites"

    def cases(self, tier):
        out = []
        for si, sig in enumerate(SIGS):
            shapes = call_shapes(sig)
            for kind in KINDS:
                for host in HOSTS:
                    for c in range(len(shapes)):
                        out.append({"sig": si, "kind": kind, "host": host, "calls": [c], "pairs": tier == "thorough"})
                        if host == "same" and kind in ("function", "method", "ctor") or tier == "thorough":
                            out.append({"sig": si, "kind": kind, "host": host, "calls": [c], "pairs": False, "wrapped": True})
                        if kind in ("function", "method") and si in (1, 2, 4):
                            out.append({"sig": si, "kind": kind, "host": host, "calls": [c], "pairs": False, "noise": True})
                    if kind in ("function", "ctor") or tier == "thorough":
                        for c1 in range(len(shapes)):
                            for c2 in range(len(shapes)):
                                if c1 < c2:
                                    out.append({"sig": si, "kind": kind, "host": host, "calls": [c1, c2], "pairs": False})
        for kind in IP_KINDS:
            for si in range(len(IP_SIGS)):
                for ek in IP_EXPRS:
                    for bk in IP_BODIES:
                        for nk in IP_NAMES:
                            if ip_project(kind, IP_SIGS[si], ek, bk) is not None:
                                out.append({"ip": [kind, si, ek, bk, nk]})
        return out

    def setup_worker(self):
        self.bench = Bench("c06")

    def run_ip(self, case):
        from rope.refactor.introduce_parameter import IntroduceParameter
        res = {"n": 1, "nt": [], "out": {}, "mech": {"introduce-parameter": 1}, "fails": [], "refused": 0, "passfeat": []}
        kind, si, ek, bk, nk = case["ip"]
        files = ip_project(kind, IP_SIGS[si], ek, bk)
        if compiles(files):
            return {"harness": "generated project does not compile %r" % files}
        base = run_project(files)
        if any(v[1] for v in base.values()):
            res["out"]["base-raises"] = 1
            return res
        src = files["xd.py"]
        e = IP_EXPRS[ek]
        body_at = src.index("def f")
        anchor = {"twice": "first =", "in-nested-def": "def inner"}.get(bk, "print('f'")
        off = src.index(e, src.index(anchor, body_at)) + len(e) - 1
        feats = sorted(["changer:introduce-parameter", "ip-kind:" + kind, "ip-sig:" + IP_SIGS[si][0], "ip-expr:" + ek, "ip-body:" + bk, "ip-name:" + nk])
        ctx = self.bench.open(files)
        try:
            status, payload = ctx.refactor(lambda p: IntroduceParameter(p, p.get_file("xd.py"), off).get_changes(IP_NAMES[nk]))
            new = ctx.tree()
        finally:
            ctx.close()
        detail = {"files": {"xd.py": src}, "offset": off, "expression": e, "new_parameter": IP_NAMES[nk]}

        def fail(k, extra):
            res["fails"].append({"kind": k, "features": feats, "size": len(src) // 40, "detail": dict(detail, **extra), "case": case})
        if status == "refused":
            res["refused"] = 1
            res["out"]["refused"] = 1
            return res
        if status != "done":
            fail(status if status != "internal" else "internal:" + str(payload).split(":")[0], {"message": str(payload)})
            return res
        if new == files:
            res["out"]["no-op"] = 1
            return res
        res["nt"].append(h8([files, off, nk]))
        bad = compiles(new)
        if bad:
            fail("syntax-error", {"result": new["xd.py"], "message": bad[1]})
            return res
        got = run_project(new, sorted(base))
        if got != base:
            fail("binding-differs", {"result": new["xd.py"], "before": base, "after": got})
            return res
        res["out"]["preserved"] = 1
        if os.environ.get("MC_TRIAGE") == "1":
            res["passfeat"].append(feats)
        return res

    def run(self, case):
        if "ip" in case:
            return self.run_ip(case)
        triage = os.environ.get("MC_TRIAGE") == "1"
        res = {"n": 0, "nt": [], "out": {}, "mech": {}, "fails": [], "refused": 0, "passfeat": []}
        sig = SIGS[case["sig"]]
        shapes = call_shapes(sig)
        calls = [shapes[c] for c in case["calls"]]
        files, usemod = make_project(case["kind"], sig, calls, case["host"], case.get("wrapped", False), case.get("noise", False))
        if compiles(files):
            return {"harness": "generated project does not compile %r" % files}
        base = run_project(files)
        if any(v[1] for v in base.values()):
            res["n"] = 1
            res["out"]["base-raises"] = 1
            return res
        base_dicts = {m: parse_out(o[0]) for m, o in base.items()}
        if case["kind"] == "ctor":
            off = files["xd.py"].index("__init__") + 2
        else:
            off = files["xd.py"].index("def f(") + 4
        single = changers_for(sig, 0 if case["kind"] == "function" else 1)
        seqs = [[c] for c in single]
        if case.get("pairs"):
            # the second changer's indexes refer to the signature the first one produced: pairs start with normalise
            # (signature unchanged) or with a legal permutation (second changer enumerated over the permuted signature)
            shift = 0 if case["kind"] == "function" else 1
            for a in single:
                if a[0] == "normalize":
                    seqs += [[a, b] for b in single]
                elif a[0].startswith("reorder") and callable(a[2]):
                    digits = [int(ch) for ch in a[0] if ch.isdigit()]
                    pl = plain(sig)
                    perm = digits + list(range(len(digits), len(pl)))
                    extras = [x for x in sig if x[0] in ("*", "**")]
                    sig2 = [pl[i] for i in perm] + extras
                    seqs += [[a, b] for b in changers_for(sig2, shift)]
        feats0 = ["kind:" + case["kind"], "host:" + case["host"], "ncalls:%d" % len(calls)]
        if case.get("wrapped"):
            feats0.append("header:wrapped")
        if case.get("noise"):
            feats0.append("module:from-keyword-before-and-import-after-the-calls")
        if any(n == "*" for n, _ in sig):
            feats0.append("sig:has-*args")
        if any(n == "**" for n, _ in sig):
            feats0.append("sig:has-**kw")
        if any(d is not None for _, d in plain(sig)):
            feats0.append("sig:has-defaults")
        for c in calls:
            if "*[" in c:
                feats0.append("call:star-seq")
            if "=" in c:
                feats0.append("call:keywords")
            if "40" in c:
                feats0.append("call:extra-positional")
            if "z=60" in c:
                feats0.append("call:extra-keyword")
            if c == "":
                feats0.append("call:no-args")
        for seq in seqs:
            labels = [c[0] for c in seq]
            if "only" in case and case["only"] != labels:
                continue
            res["n"] += 1
            ctx = self.bench.open(files)
            try:
                status, payload = ctx.refactor(
                    lambda p: cs.ChangeSignature(p, p.get_file("xd.py"), off).get_changes([c[1]() for c in seq]))
                new = ctx.tree()
            finally:
                ctx.close()
            feats = sorted(set(feats0 + ["changer:" + l.split(":")[0].rstrip("0123456789") for l in labels] + ["changer-exact:" + l for l in labels]))
            res["mech"][labels[0].rstrip("0123456789:defaultvaluebothinline+-")] = res["mech"].get(labels[0].rstrip("0123456789:defaultvaluebothinline+-"), 0) + 1
            detail = {"files": files, "changers": labels, "offset": off}

            def fail(k, extra):
                res["fails"].append({"kind": k, "features": feats, "size": len(calls) * 10 + len(sig) + len(seq),
                                     "detail": dict(detail, **extra), "case": dict(case, only=labels)})
            must_refuse = any(c[2] is None for c in seq)
            if status == "refused":
                res["refused"] += 1
                res["out"]["refused"] = res["out"].get("refused", 0) + 1
                continue
            if status != "done":
                fail(status if status != "internal" else "internal:" + str(payload).split(":")[0], {"message": str(payload)})
                continue
            if new == files:
                res["out"]["no-op"] = res["out"].get("no-op", 0) + 1
                continue
            res["nt"].append(h8([files, labels]))
            bad = compiles(new)
            if bad:
                fail("illegal-signature-not-refused" if must_refuse else "syntax-error", {"result": new, "message": bad[1]})
                continue
            got = run_project(new, sorted(base))
            if any(v[1] for v in got.values()):
                fail("illegal-signature-not-refused" if must_refuse else "raises-after", {"result": new, "after": got, "before": base})
                continue
            ok = True
            for m in base:
                exp = []
                for dct in base_dicts[m]:
                    e = dct
                    for c in seq:
                        if callable(c[2]) and isinstance(e, dict):
                            e = c[2](e)
                    exp.append(e)
                gotd = parse_out(got[m][0])
                if any(c[2] == "autodef" for c in seq):
                    # autodef supplies a default for parameters that became optional: values passed must be unchanged
                    ok = ok and len(gotd) == len(exp) and all(isinstance(g, dict) and isinstance(e, dict) and all(g.get(k) == v for k, v in e.items()) for g, e in zip(gotd, exp))
                elif gotd != exp:
                    ok = False
                if not ok:
                    fail("binding-differs", {"result": new, "module": m, "expected": repr(exp), "got": repr(gotd)})
                    break
            if ok:
                res["out"]["preserved"] = res["out"].get("preserved", 0) + 1
                if triage:
                    res["passfeat"].append(feats)
        res["sample"] = {"files": files}
        return res


CHECK = C06()
