"""C05 - moving / renaming definitions and modules keeps every importer working.

Space: operations (move a global function/class/variable to 4 destinations; move a module or
a package into / out of packages; rename a module / a package; module -> package) x client
module location (root, package, sub-package) x client import block = every single import
style of the moved thing, every ordered pair of styles, and each style next to an unrelated
import of the destination package x all uses printed.
Oracle: CPython - every module of the project imports, and every client prints what it
printed before (values are unique per definition)."""
import itertools
import os

from rope.refactor import move
from rope.refactor.rename import Rename
from rope.refactor.topackage import ModuleToPackage

from ..core import Check, h8
from ..progx import Bench
from ..runner import compiles, run_project

LIB = {
    "xlib.py": "LV = 'xlib.LV'\n",
    "xa.py": ("import xlib\n\nXV = 'xa.XV'\n\n\ndef helper():\n    return 'xa.helper'\n\n\ndef fn():\n    return helper() + '+' + xlib.LV\n\n\n"
              "class Cl:\n    tag = 'xa.Cl'\n\n    def m(self):\n        return helper()\n"),
    "xb.py": "BV = 'xb.BV'\n",
    "xpk/__init__.py": "PV = 'xpk.PV'\n",
    "xpk/xm.py": "MV = 'xpk.xm.MV'\n\n\ndef mf():\n    return 'xpk.xm.mf'\n",
    "xpk/xs/__init__.py": "",
    "xpk/xs/xd.py": "DV = 'xpk.xs.xd.DV'\n",
    "xm.py": "TV = 'xm.TV'\n",                    # a top-level module with the same last name as xpk/xm.py
    "xcopy.py": "CV = 'xcopy.CV'\n",              # a module whose name ends in the letters of the extension
    "xpk/xpk.py": "QV = 'xpk.xpk.QV'\n",          # a module named like the package that contains it
}
USE = {"fn": "%s()", "Cl": "%s.tag", "XV": "%s", "helper": "%s()"}

# styles for an element E of module xa: (statement, reference to E)
XA_STYLES = [("import xa", "xa.{E}"), ("import xa as q", "q.{E}"), ("from xa import {E}", "{E}"), ("from xa import {E} as g", "g"),
             ("from xa import *", "{E}"), ("import xa, xb", "xa.{E}"), ("from xa import {E}, helper", "{E}")]
# styles for module xpk.xm (attribute MV)
XM_STYLES = {
    "root": [("import xpk.xm", "xpk.xm.MV"), ("import xpk.xm as m", "m.MV"), ("from xpk import xm", "xm.MV"), ("from xpk import xm as m2", "m2.MV"),
             ("from xpk.xm import MV", "MV"), ("from xpk.xm import MV as w", "w"), ("from xpk.xm import *", "MV")],
    "pkg": [("from . import xm", "xm.MV"), ("from .xm import MV", "MV"), ("from xpk import xm", "xm.MV")],
    "sub": [("from .. import xm", "xm.MV"), ("from ..xm import MV", "MV"), ("import xpk.xm", "xpk.xm.MV")],
}
XD_STYLES = {
    "root": [("import xpk.xs.xd", "xpk.xs.xd.DV"), ("from xpk.xs import xd", "xd.DV"), ("from xpk.xs.xd import DV", "DV"), ("from xpk import xs", "xs.xd.DV")],
    "pkg": [("from .xs import xd", "xd.DV"), ("from .xs.xd import DV", "DV"), ("from . import xs", "xs.xd.DV")],
}
EXTRA = [("import xpk as p", "p.PV"), ("from xpk import PV", "PV"), ("import xb", "xb.BV"), ("import xpk", "xpk.PV"),
         # for clients inside xpk: relative imports of the package module whose last name equals the destination's
         ("from .xm import MV", "MV"), ("from . import xm", "xm.MV")]
XQ_STYLES = {"root": [("import xpk.xpk", "xpk.xpk.QV"), ("from xpk import xpk as inner", "inner.QV"), ("from xpk.xpk import QV", "QV"), ("from xpk import xpk", "xpk.QV")],
             "pkg": [("from . import xpk", "xpk.QV"), ("from .xpk import QV", "QV")]}

OPS = []
for elem in ("fn", "Cl", "XV"):
    for dest in ("xb.py", "xpk/xm.py", "xpk/xs/xd.py", "xpk/__init__.py"):
        OPS.append(("G", elem, dest))
OPS += [("G", "fn", "xcopy.py"), ("G", "XV", "xcopy.py"), ("G", "fn", "xm.py"), ("R", "xpk/xpk.py", "xn2"), ("M", "xpk/xpk.py", "xpk/xs")]
OPS += [("M", "xa.py", "xpk"), ("M", "xa.py", "xpk/xs"), ("M", "xpk/xm.py", ""), ("M", "xpk/xm.py", "xpk/xs"), ("M", "xpk/xs", ""),
        ("R", "xa.py", "xz"), ("R", "xpk/xm.py", "xn"), ("R", "xpk", "xq"), ("R", "xpk/xs", "xt"), ("P", "xa.py")]


# ---------------------------------------------------------------- MoveMethod
# destination class B: where it lives and how the source module reaches it
MM_DESTS = {
    "same-before": (None, None, "B()"),
    "other-from": ("xd.py", "from xd import B", "B()"),
    "other-import": ("xd.py", "import xd", "xd.B()"),
    "pkg-from": ("xpk/xm.py", "from xpk.xm import B", "B()"),
    # destination classes whose body text starts with the letters "pass" / is a lone `pass`
    "other-from-passprefix": ("xd.py", "from xd import B", "B()", "passprefix"),
    "other-from-passonly": ("xd.py", "from xd import B", "B()", "passonly"),
    "same-before-passcomment": (None, None, "B()", "passcomment"),
}
MM_BS = {
    "passprefix": "class B:\n    passage = 'B.val'\n    val = passage\n\n    def other(self):\n        return 'B.other'\n",
    "passonly": "class BB:\n    val = 'B.val'\n\n    def other(self):\n        return 'B.other'\n\n\nclass B(BB):\n    pass\n",
    "passcomment": "class BB:\n    val = 'B.val'\n\n    def other(self):\n        return 'B.other'\n\n\nclass B(BB):\n    pass  # nothing yet\n",
}
MM_B0 = "class B:\n    val = 'B.val'\n\n    def other(self):\n        return 'B.other'\n"
# (id, signature after self, body lines, call argument lists)
MM_METHODS = [
    ("noargs", "", ["return 'k'"], [""]),
    ("param", ", p", ["return p + '!'"], ["'1'", "p='2'"]),
    ("default-passed", ", p, q='d'", ["return p + q"], ["'1'", "'1', 'Q'", "p='1', q='K'"]),
    ("kwonly", ", p, *, k='k'", ["return p + k"], ["'1'", "'1', k='K'"]),
    ("star", ", *a", ["return '-'.join(a)"], ["", "'1', '2'"]),
    ("dstar", ", **kw", ["return '-'.join(sorted(kw))"], ["", "u='1', v='2'"]),
    ("self-field", ", p", ["return p + self.field"], ["'1'"]),
    ("self-method", "", ["return self.second() + '.'"], [""]),
    ("dest-attr", ", p", ["return p + self.attr.val"], ["'1'"]),
    ("dest-method", "", ["return self.attr.other()"], [""]),
    ("self-and-dest", ", p", ["t = self.field + p", "return t + self.attr.val"], ["'1'"]),
    ("global-func", "", ["return helper()"], [""]),
    ("global-var", "", ["return GV + '.'"], [""]),
    ("imported-module", "", ["return xlib.LV + '.'"], [""]),
    ("from-imported", "", ["return LV2 + '.'"], [""]),
    ("own-class", "", ["return A.field + '.'"], [""]),
    ("docstring", ", p", ['"""doc"""', "return p"], ["'1'"]),
    ("multi-stmt", ", p", ["out = []", "for ch in p:", "    if ch != 'b':", "        out.append(ch + self.field)", "return ','.join(out)"], ["'abc'"]),
    ("nested-def", ", p", ["def inner():", "    return self.field + p", "return inner()"], ["'1'"]),
    ("lambda", ", p", ["fx = lambda z: z + self.field", "return fx(p)"], ["'1'"]),
    ("local-named-host", ", p", ["host = p + '?'", "return host + self.field"], ["'1'"]),
    ("param-named-host", ", host", ["return host + self.field"], ["'1'"]),
    ("self-assign", ", p", ["self.extra = p", "return self.extra + '.'"], ["'1'"]),
    ("one-line", ", p", None, ["'1'"]),
    ("recursive", ", n", ["return 'r' if n == 0 else 'x' + self.mth(n - 1)"], ["2"]),
    ("default-uses-import", ", sep=xlib.LV", ["return sep + '.'"], ["", "'S'"]),
    ("default-uses-from-import", ", sep=LV2", ["return sep + '.'"], ["", "'S'"]),
    ("annotation-uses-import", ", p: xlib.LV.__class__ = 'x'", ["return p + '.'"], ["", "'S'"]),
    ("default-uses-global", ", sep=GV", ["return sep + '.'"], ["", "'S'"]),
]
MM_NAMES = ["mth", "moved", "other"]


def mm_files(dest, meth, in_client):
    dpath, imp, ctor = MM_DESTS[dest][:3]
    MM_B = MM_BS[MM_DESTS[dest][3]] if len(MM_DESTS[dest]) > 3 else MM_B0
    mid, sig, body, calls = meth
    files = {"xlib.py": "LV = 'xlib.LV'\nLV2 = 'xlib.LV2'\n", "xpk/__init__.py": "", "xpk/xm.py": "MV = 'xpk.xm.MV'\n"}
    src = "import xlib\nfrom xlib import LV2\n"
    if dpath:
        files[dpath] = (files[dpath] + "\n\n" if dpath in files else "") + MM_B
        src += imp + "\n"
    src += "\nGV = 'xa.GV'\n\n\ndef helper():\n    return 'xa.helper'\n\n\n"
    if not dpath:
        src += MM_B + "\n\n"
    src += "class A:\n    field = 'A.field'\n\n    def __init__(self):\n        self.attr = %s\n\n" % ctor
    if body is None:
        src += "    def mth(self%s): return p + '|'\n\n" % sig
    else:
        src += "    def mth(self%s):\n%s\n\n" % (sig, "\n".join("        " + l for l in body))
    src += "    def second(self):\n        return 'A.second'\n\n    def caller(self):\n        return self.mth(%s)\n" % calls[0]
    uses = "".join("print(%d, A().mth(%s))\n" % (i, c) for i, c in enumerate(calls)) + "print('c', A().caller())\n"
    if in_client:
        files["xc.py"] = "from xa import A\n\n" + uses
    else:
        src += "\n\n" + uses
    files["xa.py"] = src
    return files


# ---------------------------------------------------------------- the moving module's own imports
OWN_LIB = {
    "xpk/__init__.py": "", "xpk/xutil.py": "U = 'xpk.xutil.U'\n", "xpk/xm.py": "MV = 'xpk.xm.MV'\n",
    "xpk/xs/__init__.py": "", "xpk/xs/xutil.py": "U = 'xpk.xs.xutil.U'\n", "xpk/xs/xe.py": "EV = 'xpk.xs.xe.EV'\n",
}
OWN_STYLES = [("from . import xutil", "xutil.U"), ("from .. import xutil as up", "up.U"), ("from .xutil import U", "U"), ("from ..xutil import U as U2", "U2"),
              ("from ..xm import MV", "MV"), ("from .. import xm", "xm.MV"), ("import xpk.xutil", "xpk.xutil.U"), ("from xpk.xs import xutil as ax", "ax.U"),
              ("from . import xe", "xe.EV"),
              # the module refers to itself by its absolute name (used lazily, inside a function the clients call)
              ("import xpk.xs.xd", None)]
OWN_OPS = [("P", "xpk/xs/xd.py"), ("M", "xpk/xs/xd.py", ""), ("M", "xpk/xs/xd.py", "xpk"), ("R", "xpk/xs/xd.py", "xn")]


def own_files(block):
    stmts = [OWN_STYLES[i] for i in block]
    selfref = any(r is None for _, r in stmts)
    src = "\n".join(s for s, _ in stmts) + "\n\nDV = 'xpk.xs.xd.DV'\n" + "".join("print(%r, %s)\n" % (r, r) for _, r in stmts if r is not None)
    if selfref:
        src += "\n\ndef selfref():\n    return xpk.xs.xd.DV\n"
    files = dict(OWN_LIB)
    files["xpk/xs/xd.py"] = src
    files["xc.py"] = "import xpk.xs.xd\n\nprint(xpk.xs.xd.DV)\n" + ("print(xpk.xs.xd.selfref())\n" if selfref else "")
    files["xpk/xs/xc2.py"] = "from . import xd\n\nprint(xd.DV)\n" + ("print(xd.selfref())\n" if selfref else "")
    return files


def styles_for(op, loc):
    """Client import styles relevant to the thing that moves."""
    k = op[0]
    if k == "G":
        if loc == "pkg" and op[2] == "xm.py":
            return [("from xa import fn", "fn()"), ("import xa", "xa.fn()")]
        return [(s.replace("{E}", op[1]), USE[op[1]] % r.replace("{E}", op[1])) for s, r in XA_STYLES] if loc == "root" else []
    if op[1] == "xpk/xpk.py":
        return XQ_STYLES.get(loc, [])
    target = op[1]
    if target == "xa.py":
        return [(s.replace("{E}", "fn"), USE["fn"] % r.replace("{E}", "fn")) for s, r in XA_STYLES] if loc == "root" else []
    if target == "xpk/xm.py":
        return XM_STYLES.get(loc, [])
    if target == "xpk":
        return (XM_STYLES.get(loc, []) + XD_STYLES.get(loc, [])) if loc == "root" else []
    if target == "xpk/xs":
        return XD_STYLES.get(loc, [])
    return []


def client_source(stmts):
    src = "\n".join(s for s, _ in stmts) + "\n\n"
    for s, ref in stmts:
        src += "print(%r, %s)\n" % (ref, ref)
    return src


class C05(Check):
    pid = "C05"
    level = "exploration"
    rule = ("cases = (operation in 27 (incl. a destination whose last name equals a package module's, and a module named like its package): MoveGlobal of a function/class/variable to a flat module, a package module, a nested "
            "package module and a package __init__; MoveModule of a module/package into and out of packages; Rename of a module, "
            "a package module, a package, a sub-package; ModuleToPackage) x client location {root, package, sub-package} x client "
            "import block {every import style of the moved thing, every ordered pair of styles, every style followed/preceded by "
            "an unrelated import of the destination package or module}; evaluation = perform the operation with the real code, "
            "then import every module of the resulting project and compare each client's output; non-trivial = performed "
            "operations; distinct by (operation, client source)")
    assumptions = ["behaviour = stdout + exception type of importing every module; definitions carry unique string values so a reference reaching another object is visible",
                   "the moved code's own dependencies (a sibling helper, an import) are exercised by calling the moved function"]
    chunksize = 4

    def bound_text(self, tier):
        return "single styles + all ordered pairs + extras (one client module)"

    def cases(self, tier):
        out = []
        for oi, op in enumerate(OPS):
            for loc in ("root", "pkg", "sub"):
                st = styles_for(op, loc)
                if not st:
                    continue
                blocks = [[i] for i in range(len(st))]
                blocks += [[i, j] for i in range(len(st)) for j in range(len(st)) if i != j]
                for b in blocks:
                    out.append({"op": oi, "loc": loc, "block": b, "extra": None})
                for i in range(len(st)):
                    for e in range(len(EXTRA)):
                        if EXTRA[e][0].startswith("from .") != (loc == "pkg" and op[0] == "G"):
                            continue
                        out.append({"op": oi, "loc": loc, "block": [i], "extra": [e, "after"]})
                        out.append({"op": oi, "loc": loc, "block": [i], "extra": [e, "before"]})
        for oi in range(len(OWN_OPS)):
            n = len(OWN_STYLES)
            for b in [[i] for i in range(n)] + [[i, j] for i in range(n) for j in range(n) if i != j]:
                out.append({"own": [oi, b]})
        for dest in MM_DESTS:
            for mi in range(len(MM_METHODS)):
                for name in MM_NAMES:
                    for in_client in (False, True):
                        out.append({"mm": [dest, mi, name, in_client]})
        return out

    def setup_worker(self):
        self.bench = Bench("c05")

    def run(self, case):
        triage = os.environ.get("MC_TRIAGE") == "1"
        res = {"n": 0, "nt": [], "out": {}, "mech": {}, "fails": [], "refused": 0, "passfeat": []}
        if "mm" in case:
            return self.run_mm(case, res, triage)
        if "own" in case:
            return self.run_own(case, res, triage)
        op = OPS[case["op"]]
        loc = case["loc"]
        st = styles_for(op, loc)
        stmts = [st[i] for i in case["block"]]
        if case["extra"] is not None:
            e = EXTRA[case["extra"][0]]
            stmts = stmts + [e] if case["extra"][1] == "after" else [e] + stmts
        cpath = {"root": "xc.py", "pkg": "xpk/xc.py", "sub": "xpk/xs/xc.py"}[loc]
        files = dict(LIB)
        files[cpath] = client_source(stmts)
        if compiles(files):
            res["n"] = 1
            res["out"]["invalid-client"] = 1
            return res
        base = run_project(files)
        if any(v[1] for v in base.values()):
            res["n"] = 1
            res["out"]["base-raises"] = 1
            return res
        res["n"] = 1
        ctx = self.bench.open(files)
        try:
            p = ctx.project

            def make(p):
                if op[0] == "G":
                    src = files["xa.py"]
                    needle = {"fn": "def fn", "Cl": "class Cl", "XV": "XV ="}[op[1]]
                    off = src.index(needle) + (needle.index(op[1]))
                    return move.create_move(p, p.get_file("xa.py"), off).get_changes(p.get_resource(op[2]))
                if op[0] == "M":
                    dest = p.get_folder(op[2]) if op[2] else p.root
                    return move.create_move(p, p.get_resource(op[1])).get_changes(dest)
                if op[0] == "R":
                    return Rename(p, p.get_resource(op[1])).get_changes(op[2])
                return ModuleToPackage(p, p.get_file(op[1])).get_changes()
            status, payload = ctx.refactor(make)
            new = ctx.tree()
        finally:
            ctx.close()
        feats = ["op:" + op[0], "op:" + "/".join(op), "loc:" + loc, "nstmts:%d" % len(stmts)]
        for s, r in stmts:
            kind = ("star" if "*" in s else "relative" if s.startswith("from .") else "from-as" if s.startswith("from") and " as " in s else
                    "from-multi" if s.startswith("from") and "," in s else "from" if s.startswith("from") else "import-as" if " as " in s else
                    "import-multi" if "," in s else "import-dotted" if "." in s else "import")
            feats += ["style:" + kind, "stmt:" + s]
        if case["extra"] is not None:
            feats.append("extra:" + EXTRA[case["extra"][0]][0] + "/" + case["extra"][1])
        feats = sorted(set(feats))
        detail = {"operation": list(op), "client": {cpath: files[cpath]}}
        res["mech"][op[0]] = 1

        def fail(k, extra):
            res["fails"].append({"kind": k, "features": feats, "size": len(stmts), "detail": dict(detail, **extra), "case": case})
        if status == "refused":
            res["refused"] = 1
            res["out"]["refused"] = 1
            return res
        if status != "done":
            fail(status if status != "internal" else "internal:" + str(payload).split(":")[0], {"message": str(payload)})
            return res
        res["nt"].append(h8([list(op), files[cpath]]))
        bad = compiles(new)
        if bad:
            fail("syntax-error", {"result": {k: v for k, v in new.items() if files.get(k) != v}, "message": bad[1]})
            return res
        got = run_project(new)
        changed = {k: v for k, v in new.items() if files.get(k) != v}
        broken = {m: v for m, v in got.items() if v[1] is not None}
        if broken:
            fail("module-does-not-import", {"result": changed, "broken": broken})
            return res
        cmod = cpath[:-3].replace("/", ".")
        if got.get(cmod) != base.get(cmod):
            fail("behaviour-differs", {"result": changed, "before": base.get(cmod), "after": got.get(cmod)})
            return res
        res["out"]["preserved"] = 1
        if triage:
            res["passfeat"].append(feats)
        res["sample"] = {"operation": list(op), "client": files[cpath]}
        return res


    def run_own(self, case, res, triage):
        oi, block = case["own"]
        op = OWN_OPS[oi]
        files = own_files(block)
        res["n"] = 1
        if compiles(files):
            res["out"]["invalid-client"] = 1
            return res
        base = run_project(files)
        if any(v[1] for v in base.values()):
            res["harness"] = "own-imports base program raises: %r" % (base,)
            return res
        ctx = self.bench.open(files)
        try:
            def make(p):
                if op[0] == "M":
                    return move.create_move(p, p.get_resource(op[1])).get_changes(p.get_folder(op[2]) if op[2] else p.root)
                if op[0] == "R":
                    return Rename(p, p.get_resource(op[1])).get_changes(op[2])
                return ModuleToPackage(p, p.get_file(op[1])).get_changes()
            status, payload = ctx.refactor(make)
            new = ctx.tree()
        finally:
            ctx.close()
        stmts = [OWN_STYLES[i] for i in block]
        feats = sorted({"op:own-imports", "op:" + "/".join(op), "nstmts:%d" % len(stmts)} | {"own:" + s for s, _ in stmts})
        detail = {"operation": list(op), "moving module": files["xpk/xs/xd.py"]}
        res["mech"]["own-" + op[0]] = 1

        def fail(k, extra):
            res["fails"].append({"kind": k, "features": feats, "size": len(stmts), "detail": dict(detail, **extra), "case": case})
        if status == "refused":
            res["refused"] = 1
            res["out"]["refused"] = 1
            return res
        if status != "done":
            fail(status if status != "internal" else "internal:" + str(payload).split(":")[0], {"message": str(payload)})
            return res
        res["nt"].append(h8(["own", list(op), files["xpk/xs/xd.py"]]))
        changed = {k: v for k, v in new.items() if files.get(k) != v}
        bad = compiles(new)
        if bad:
            fail("syntax-error", {"result": changed, "message": bad[1]})
            return res
        got = run_project(new)
        broken = {m: v for m, v in got.items() if v[1] is not None}
        if broken:
            fail("module-does-not-import", {"result": changed, "broken": broken})
            return res
        for cmod in ("xc", "xpk.xs.xc2"):
            if got.get(cmod) != base.get(cmod):
                fail("behaviour-differs", {"result": changed, "client": cmod, "before": base.get(cmod), "after": got.get(cmod)})
                return res
        res["out"]["preserved"] = 1
        if triage:
            res["passfeat"].append(feats)
        return res

    def run_mm(self, case, res, triage):
        dest, mi, name, in_client = case["mm"]
        meth = MM_METHODS[mi]
        files = mm_files(dest, meth, in_client)
        res["n"] = 1
        if compiles(files):
            res["out"]["invalid-client"] = 1
            return res
        base = run_project(files)
        if any(v[1] for v in base.values()):
            res["out"]["base-raises"] = 1
            res["harness"] = "MoveMethod base program raises: %r" % (base,)
            return res
        ctx = self.bench.open(files)
        try:
            src = files["xa.py"]

            def make(p):
                return move.create_move(p, p.get_file("xa.py"), src.index("def mth") + 4).get_changes("attr", name)
            status, payload = ctx.refactor(make)
            new = ctx.tree()
        finally:
            ctx.close()
        feats = sorted({"op:MM", "dest:" + dest, "method:" + meth[0], "newname:" + ("same" if name == "mth" else "taken" if name == "other" else "fresh"),
                        "uses:" + ("client" if in_client else "same-module")})
        detail = {"operation": ["MoveMethod", "A.mth", "attr", name], "source": files["xa.py"]}
        res["mech"]["MM"] = 1

        def fail(k, extra):
            res["fails"].append({"kind": k, "features": feats, "size": 1, "detail": dict(detail, **extra), "case": case})
        if status == "refused":
            res["refused"] = 1
            res["out"]["refused"] = 1
            return res
        if status != "done":
            fail(status if status != "internal" else "internal:" + str(payload).split(":")[0], {"message": str(payload)})
            return res
        res["nt"].append(h8(["MM", dest, meth[0], name, in_client]))
        changed = {k: v for k, v in new.items() if files.get(k) != v}
        bad = compiles(new)
        if bad:
            fail("syntax-error", {"result": changed, "message": bad[1]})
            return res
        got = run_project(new)
        broken = {m: v for m, v in got.items() if v[1] is not None}
        if broken:
            fail("module-does-not-import", {"result": changed, "broken": broken})
            return res
        if got != base:
            fail("behaviour-differs", {"result": changed, "before": base, "after": got})
            return res
        res["out"]["preserved"] = 1
        if triage:
            res["passfeat"].append(feats)
        res["sample"] = {"operation": detail["operation"], "source": files["xa.py"]}
        return res


CHECK = C05()
