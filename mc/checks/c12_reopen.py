"""C12 - closing and reopening a project loses nothing it promised to keep.

(a) Differential exploration: every history (depth<=d over 22 operations) is executed twice on
the real implementation - once straight through and once with close()+reopen inserted at one
(thorough: one or two) of every possible position - and then driven through the same probes
(undo everything, redo everything; selective undo of the oldest change).  The runs must agree
on the history lists (order, descriptions, contents), on the tree after every probe step and
on the stored object information.
(b) Serializer: all nested values up to a node-count bound over a collision-prone atom alphabet
round-trip through JSON text with identical types, for both format versions."""
import itertools
import json
import os

from rope.base import serializer
from rope.base.project import Project

from ..core import Check, h8
from ..fsutil import DIR, Scratch, show, snap
from ..histops import TEXTS, apply_op, view_history, view_objectdb

INIT = {"junk.pyc": b"junk\n", "m.py": TEXTS["v1"].encode(), "c.py": b"a = 1\r\nb = 2\r\n", "d": DIR, "d/x.py": b"X = 1\n"}

OPS = [
    ("W", "m.py", "v2"), ("W", "m.py", "uni"), ("W", "c.py", "a = 1\nb = 3\n"), ("W", "m.py", "empty"), ("W", "d/x.py", "nonl"),
    ("CF", "", "n.py"), ("CD", "", "pkg"), ("MV", "m.py", "pkg/m.py"), ("MV", "d", "g"), ("MV", "c.py", "k.py"),
    ("RM", "d/x.py"), ("SET", [("W", "m.py", "v2"), ("CF", "", "n.py")]), ("W", "g/x.py", "X = 2\n"),
    ("undo",), ("redo",), ("analyze", "m.py"), ("W", "k.py", "a = 5\nb = 6\n"), ("undo_drop",),
    # one path that is a file in one change and a folder in a later one
    ("MV", "n.py", "n2.py"), ("CD", "", "n.py"),
    # an explicit save in the middle of a session
    ("sync",),
    # a change that touches only a resource matched by the default ignore patterns (it is performed, clears redo, is not recorded)
    ("W", "junk.pyc", "x\n"),
]
OPS_SMALL = [OPS[i] for i in (0, 2, 5, 6, 7, 8, 9, 12, 13, 15, 16)]


def op_str(o):
    if o[0] == "SET":
        return "SET[" + ",".join(op_str(x) for x in o[1]) + "]"
    return ":".join(str(x).replace("\n", "\\n").replace("\r", "\\r") for x in o)


def op_kinds(o):
    return ["op:" + o[0]] + (["op:W-crlf"] if o[0] == "W" and o[1] in ("c.py", "k.py") else []) + \
        (["op:MV-folder"] if o[0] == "MV" and o[1] == "d" else [])


OPEN = dict(save_history=True, save_objectdb=True)


class Infeasible(Exception):
    pass


def execute(scratch, ops, reopen_at, probe):
    """Run ops with close/reopen after the positions in reopen_at, then the probe; returns the
    list of observations (plain data)."""
    root = scratch.new(INIT)
    p = Project(root, **OPEN)
    obs = []
    try:
        for i, op in enumerate(ops):
            try:
                apply_op(p, op, "c%d" % (i + 1))
            except Exception as e:
                raise Infeasible("%s: %r" % (op_str(op), e))
            if (i + 1) in reopen_at:
                odb_before = view_objectdb(p)
                p.close()
                p = Project(root, **OPEN)
                odb_after = view_objectdb(p)
                obs.append(("objectdb-across-reopen", odb_before == odb_after, odb_before if odb_before != odb_after else None,
                            odb_after if odb_before != odb_after else None))
        obs.append(("history", view_history(p)))
        obs.append(("tree", show(snap(root))))

        def step(label, fn):
            try:
                fn()
                obs.append((label, "ok", show(snap(root)), view_history(p)))
                return True
            except Exception as e:
                obs.append((label, "raised:" + type(e).__name__, show(snap(root)), None))
                return False
        if probe == "undo-redo-all":
            n = 0
            while p.history.undo_list and n < 8:
                n += 1
                if not step("undo#%d" % n, p.history.undo):
                    break
            n = 0
            while p.history.redo_list and n < 8:
                n += 1
                if not step("redo#%d" % n, p.history.redo):
                    break
        elif probe == "selective":
            if p.history.undo_list:
                step("undo(change=undo_list[0])", lambda: p.history.undo(change=p.history.undo_list[0]))
            if p.history.redo_list:
                step("redo(change=redo_list[0])", lambda: p.history.redo(change=p.history.redo_list[0]))
        return obs
    finally:
        try:
            p.data_files.hooks[:] = []
            p.close()
        except Exception:
            pass
        scratch.drop(root)


# ---------------------------------------------------------------------------- serializer
ATOMS = [0, 1, -1, True, None, "", "a", "1", "\u0663", "t", "items", "v", "$"]
KEY_ATOMS = [0, 1, True, None, "", "a", "1", "\u0663", "t", "items", "v", "00", "-1", "+0", " 3", "1_0"]


def typed(v):
    if isinstance(v, (list, tuple)):
        return (type(v).__name__, tuple(typed(x) for x in v))
    if isinstance(v, dict):
        return ("dict", tuple(sorted(((typed(k), typed(x)) for k, x in v.items()), key=repr)))
    return (type(v).__name__, v)


def values(n, memo={}):
    """All values with exactly n nodes (atom = 1 node; container = 1 + children; dict entry key counts)."""
    if n in memo:
        return memo[n]
    out = []
    if n == 1:
        out = list(ATOMS) + [[], (), {}]
    else:
        # containers with 1 or 2 children
        for k in range(1, n):
            rest = n - 1 - k
            if rest == 0:
                for a in values(k):
                    out.append([a])
                    out.append((a,))
            elif rest > 0:
                for a in values(k):
                    for b in values(rest):
                        out.append([a, b])
                        out.append((a, b))
        # dicts: one entry (key of size kk, value of size n-1-kk); two entries
        for kk in range(1, n - 1):
            for key in keys(kk):
                for val in values(n - 1 - kk):
                    out.append({key: val})
        if n >= 5:
            for k1 in keys(1):
                for k2 in keys(1):
                    if typed(k1) < typed(k2) and k1 != k2:
                        for v1 in values(1):
                            for v2 in values(n - 4):
                                out.append({k1: v1, k2: v2})
    memo[n] = out
    return out


def keys(n, memo={}):
    if n in memo:
        return memo[n]
    if n == 1:
        out = list(KEY_ATOMS) + [()]
    else:
        out = []
        for k in range(1, n):
            rest = n - 1 - k
            if rest == 0:
                out += [(a,) for a in keys(k)]
            elif rest > 0:
                out += [(a, b) for a in keys(k) for b in keys(rest)]
    memo[n] = out
    return out


class C12(Check):
    pid = "C12"
    level = "model_checking"
    rule = ("(a) states are event histories: all sequences of 22 operations (content edits incl. CRLF/unicode/empty/no-final-newline, "
            "create file/folder, file and folder moves, removal, nested change set, undo, redo, module analysis) to depth d; each "
            "feasible sequence is replayed on the real implementation without and with close()+reopen inserted at every position "
            "(thorough: also every pair of positions), followed by two probes (undo-all/redo-all, selective undo/redo of the oldest "
            "item); runs are compared observation by observation. non-trivial = (sequence, reopen positions, probe) where the "
            "reopened project carried a non-empty history across a reopen. (b) every nested value with <=N nodes over 13 atoms "
            "(numeric-looking strings, non-ASCII digit, bool/int twins, reserved words) x {list,tuple,dict with atom/tuple keys} x "
            "version {1,2} round-trips through json text with identical types")
    assumptions = ["the run without reopen is the reference (differential oracle); trees compare path set, kinds and bytes outside the rope folder",
                   "time stamps of change sets are not compared",
                   "serializer domain: str/int/bool/None atoms, list/tuple/dict; dict keys that python_to_json rejects (reserved '$') are outside the quantifier"]
    chunksize = 2
    budget_quick = 450

    def bound_text(self, tier):
        return ("histories depth<=3 x one or two reopens at every position; serializer values <=5 nodes" if tier == "quick"
                else "histories depth<=4 (11-op sub-alphabet at depth 4) x one or two reopens; serializer values <=6 nodes")

    def cases(self, tier):
        out = []
        depth = 3
        for n in range(1, depth + 1):
            for seq in itertools.product(range(len(OPS)), repeat=n):
                out.append({"ops": list(seq), "alpha": "full", "pairs": True})
        if tier == "thorough":
            for seq in itertools.product(range(len(OPS_SMALL)), repeat=4):
                out.append({"ops": list(seq), "alpha": "small", "pairs": True})
        nmax = 5 if tier == "quick" else 6
        for n in range(1, nmax + 1):
            vals = values(n)
            for i in range(0, len(vals), 2000):
                out.append({"ser": n, "lo": i, "hi": min(len(vals), i + 2000)})
        return out

    def setup_worker(self):
        self.scratch = Scratch("c12")

    def run(self, case):
        if "ser" in case:
            return self.run_ser(case)
        triage = os.environ.get("MC_TRIAGE") == "1"
        res = {"n": 0, "nt": [], "out": {}, "mech": {}, "fails": [], "states": [], "trans": 0, "traces": 0, "passfeat": []}
        alpha = OPS if case["alpha"] == "full" else OPS_SMALL
        ops = [alpha[i] for i in case["ops"]]
        n = len(ops)
        positions = [(i,) for i in range(1, n + 1)]
        if case.get("pairs"):
            positions += [(i, j) for i in range(1, n + 1) for j in range(i + 1, n + 1)]
        if "only" in case:
            positions = [tuple(case["only"][0])]
        for probe in ("undo-redo-all", "selective"):
            if "only" in case and case["only"][1] != probe:
                continue
            try:
                base = execute(self.scratch, ops, (), probe)
            except Infeasible:
                res["out"]["infeasible"] = res["out"].get("infeasible", 0) + 1
                res["n"] += 1
                return res
            res["states"].append(h8(base))
            for pos in positions:
                res["n"] += 1
                res["traces"] += 1
                res["trans"] += n + len(base)
                try:
                    got = execute(self.scratch, ops, pos, probe)
                except Infeasible as e:
                    # an operation that worked without the reopen is refused after it
                    res["fails"].append({"kind": "operation-refused-only-after-reopen", "features": sorted(set(f for o in ops for f in op_kinds(o)) | {"probe:" + probe, "reopens:%d" % len(pos)}),
                                         "size": n, "detail": {"ops": [op_str(o) for o in ops], "reopen_after": list(pos), "probe": probe, "message": str(e)},
                                         "case": dict(case, only=[list(pos), probe])})
                    continue
                carried = [o for o in got if o[0] == "history"][0][1] != ([], [])
                feats = sorted(set(f for o in ops for f in op_kinds(o)) | {"probe:" + probe, "reopens:%d" % len(pos)})
                got_cmp = [o for o in got if o[0] != "objectdb-across-reopen"]
                bad = None
                for o in got:
                    if o[0] == "objectdb-across-reopen" and not o[1]:
                        bad = ("objectdb-differs-after-reopen", {"before": repr(o[2])[:500], "after": repr(o[3])[:500]})
                if bad is None and got_cmp != base:
                    for a, b in zip(base, got_cmp):
                        if a != b:
                            what = a[0]
                            if a[0] == "history":
                                kind = "history-differs-after-reopen"
                            elif a[1] != b[1]:
                                kind = "probe-outcome-differs"
                            elif a[2] != b[2]:
                                kind = "tree-differs-after-probe"
                            else:
                                kind = "history-differs-after-probe"
                            feats.append("at:" + what.split("#")[0])
                            bad = (kind, {"step": what, "without_reopen": a, "with_reopen": b})
                            break
                    else:
                        bad = ("observation-count-differs", {"without_reopen": base[-2:], "with_reopen": got_cmp[-2:]})
                if bad:
                    res["fails"].append({"kind": bad[0], "features": sorted(set(feats)), "size": n,
                                         "detail": dict(bad[1], ops=[op_str(o) for o in ops], reopen_after=list(pos), probe=probe),
                                         "case": dict(case, only=[list(pos), probe])})
                else:
                    if triage:
                        res["passfeat"].append(feats)
                    o_ = "agree:" + probe
                    res["out"][o_] = res["out"].get(o_, 0) + 1
                if carried:
                    res["nt"].append(h8([case["ops"], case["alpha"], pos, probe]))
                res["mech"]["reopen@%s" % ("end" if pos[-1] == n else "middle")] = res["mech"].get("reopen@%s" % ("end" if pos[-1] == n else "middle"), 0) + 1
        res["sample"] = {"ops": [op_str(o) for o in ops], "reopen_positions": [list(p) for p in positions]}
        return res

    def run_ser(self, case):
        res = {"n": 0, "nt": [], "out": {}, "mech": {}, "fails": []}
        vals = values(case["ser"])[case["lo"]:case["hi"]]
        for v in vals:
            for ver in (1, 2):
                res["n"] += 1
                try:
                    enc = serializer.python_to_json(v, version=ver)
                except ValueError:
                    res["out"]["rejected"] = res["out"].get("rejected", 0) + 1
                    res["refused"] = res.get("refused", 0) + 1
                    continue
                except Exception as e:
                    res["fails"].append({"kind": "encode-raises:" + type(e).__name__, "features": ["ser", "ver:%d" % ver],
                                         "detail": {"value": repr(v), "version": ver}, "size": case["ser"],
                                         "case": {"ser": case["ser"], "lo": case["lo"], "hi": case["hi"]}})
                    continue
                try:
                    text = json.dumps(enc)
                    dec = json.loads(text)
                    back = serializer.json_to_python(dec)
                except Exception as e:
                    res["fails"].append({"kind": "decode-raises:" + type(e).__name__, "features": ["ser", "ver:%d" % ver],
                                         "detail": {"value": repr(v), "version": ver, "encoded": repr(enc)[:300]}, "size": case["ser"]})
                    continue
                if typed(back) != typed(v):
                    feats = ["ser", "ver:%d" % ver]
                    res["fails"].append({"kind": "roundtrip-differs", "features": feats, "size": case["ser"],
                                         "detail": {"value": repr(v), "version": ver, "decoded": repr(back), "json": text[:300]}})
                elif dec != enc:
                    res["fails"].append({"kind": "json-form-unstable", "features": ["ser", "ver:%d" % ver], "size": case["ser"],
                                         "detail": {"value": repr(v), "version": ver, "json": text[:300]}})
                else:
                    res["out"]["roundtrip-ok"] = res["out"].get("roundtrip-ok", 0) + 1
                if isinstance(v, (list, tuple, dict)) and len(v):
                    res["nt"].append(h8(["ser", repr(typed(v)), ver]))
        res["mech"]["serializer"] = len(vals)
        res["sample"] = {"serializer_values": [repr(v) for v in vals[:3]]}
        return res


CHECK = C12()
