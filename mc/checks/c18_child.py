"""Child process run under strace by C18: builds a history, then saves between two marker
syscalls.  argv: root scenario-json"""
import json
import os
import shutil
import sys
import warnings

warnings.simplefilter("ignore")
from rope.base.project import Project  # noqa: E402

from mc.histops import apply_op  # noqa: E402
from mc import guard  # noqa: E402

guard.install()


def mark(name):
    try:
        os.stat("/MC_MARK_" + name)
    except OSError:
        pass


def main():
    root, scen = sys.argv[1], json.loads(sys.argv[2])
    n = 0
    for si, session in enumerate(scen["sessions"]):
        p = Project(root, save_history=True, save_objectdb=True)
        for op in session:
            n += 1
            apply_op(p, op, "c%d" % n)
        last = si == len(scen["sessions"]) - 1
        if last:
            pre = root + ".pre"
            if os.path.isdir(os.path.join(root, ".ropeproject")):
                shutil.copytree(os.path.join(root, ".ropeproject"), pre)
            else:
                os.mkdir(pre)
            mark("BEGIN")
            if scen.get("save") == "sync":
                p.sync()
            else:
                p.close()
            mark("END")
        else:
            p.close()


main()
