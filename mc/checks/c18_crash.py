"""C18 - an interrupted save never leaves a project that cannot be opened.

For every history scenario the real save (Project.close / sync) is run once in a child process
under strace; the ordered list of its file-system effects on the rope folder is recovered from
the system-call log (ground truth of what reaches the OS, including Python's buffering order).
Crash model = process death: the reachable disk states are exactly the program-order prefixes
of that effect list, with every byte prefix of every write.  Every such state is materialised
and the project is reopened on it with the real code; then an ordinary session (one change, normal
close) runs on top of the crash state and the project is reopened once more."""
import json
import os
import re
import shutil
import subprocess
import sys

from rope.base.project import Project

from ..core import Check, h8, VERIF
from ..fsutil import Scratch, snap
from ..histops import view_history, view_objectdb

TRACE = ("openat,open,creat,write,pwrite64,writev,close,rename,renameat,renameat2,unlink,unlinkat,mkdir,mkdirat,rmdir,"
         "ftruncate,truncate,lseek,fsync,fdatasync,link,linkat,symlink,symlinkat,sendfile,copy_file_range,newfstatat,stat,dup,dup2,dup3,fcntl")

S1 = [("CF", "", "m.py"), ("W", "m.py", "v1"), ("analyze", "m.py")]
SCENARIOS_QUICK = [
    {"name": "first-save", "sessions": [S1]},
    {"name": "prior+edit", "sessions": [S1, [("W", "m.py", "v2"), ("analyze", "m.py")]]},
    {"name": "prior+undo(redo list)", "sessions": [S1, [("W", "m.py", "v2"), ("CF", "", "n.py"), ("undo",)]]},
    {"name": "unicode+crlf", "sessions": [S1, [("CF", "", "u.py"), ("W", "u.py", "uni"), ("W", "u.py", "crlf"), ("undo",), ("analyze", "u.py")]]},
    {"name": "folder-move", "sessions": [S1, [("CD", "", "pkg"), ("MV", "m.py", "pkg/m.py"), ("analyze", "pkg/m.py")]]},
    {"name": "sync-only", "save": "sync", "sessions": [S1, [("W", "m.py", "v2"), ("undo",), ("redo",), ("undo",)]]},
    {"name": "empty-history-after-nonempty", "sessions": [S1, [("undo",), ("undo",)]]},
]
OPS2 = [("W", "m.py", "v2"), ("W", "m.py", "uni"), ("CF", "", "n.py"), ("CD", "", "pkg"), ("MV", "m.py", "k.py"), ("undo",), ("redo",),
        ("analyze", "m.py")]


def unhex(s):
    return re.sub(rb"\\x([0-9a-f]{2})", lambda m: bytes([int(m.group(1), 16)]), s.encode("latin-1"))


LINE = re.compile(r"^(\d+)\s+(\w+)\((.*)\)\s+=\s+(-?\d+|\?)(.*)$")
STR = re.compile(r'"((?:\\x[0-9a-f]{2})*)"(\.\.\.)?')


def parse_trace(path, ropedir):
    """Return (effects, problems). Effects touch only files directly inside ropedir."""
    effects, problems = [], []
    fds = {}
    on = False
    rd = ropedir.rstrip("/") + "/"
    with open(path, encoding="latin-1") as fh:
        for line in fh:
            m = LINE.match(line.rstrip("\n"))
            if not m:
                if on and ("unfinished" in line or "resumed" in line):
                    problems.append("split syscall line: " + line[:80])
                continue
            pid, call, args, ret, _rest = m.groups()
            strs = [unhex(s.group(1)) for s in STR.finditer(args)]
            trunc = any(s.group(2) for s in STR.finditer(args))
            if call in ("stat", "newfstatat") and strs and strs[0].startswith(b"/MC_MARK_"):
                on = strs[0].endswith(b"BEGIN")
                continue
            if not on:
                continue
            r = int(ret) if ret != "?" else -1
            if call in ("openat", "open", "creat"):
                if r < 0 or not strs:
                    continue
                p = strs[0].decode()
                if call == "openat" and not p.startswith("/"):
                    problems.append("relative openat " + p)
                if p.startswith(rd):
                    name = p[len(rd):]
                    writable = "O_WRONLY" in args or "O_RDWR" in args or call == "creat"
                    if writable:
                        hid = len(effects)
                        fds[r] = [hid, 0, "O_APPEND" in args, name]
                        if "O_TRUNC" in args or call == "creat":
                            effects.append(("trunc", name, hid))
                        else:
                            effects.append(("create" if "O_CREAT" in args else "openw", name, hid))
                    else:
                        fds.pop(r, None)
                else:
                    fds.pop(r, None)
            elif call == "close":
                fd = int(args.split(",")[0])
                fds.pop(fd, None)
            elif call in ("write", "pwrite64", "writev"):
                fd = int(args.split(",")[0])
                if fd in fds:
                    if call != "write" or trunc:
                        problems.append("unmodelled write form: " + line[:60])
                        continue
                    data = strs[0][:r] if r >= 0 else b""
                    ent = fds[fd]
                    effects.append(("write", ent[3], None if ent[2] else ent[1], data, ent[0]))
                    ent[1] += len(data)
            elif call == "lseek":
                fd = int(args.split(",")[0])
                if fd in fds and r >= 0:
                    fds[fd][1] = r
            elif call in ("rename", "renameat", "renameat2"):
                if r == 0 and len(strs) >= 2:
                    a, b = strs[0].decode(), strs[1].decode()
                    if a.startswith(rd) or b.startswith(rd):
                        if not (a.startswith(rd) and b.startswith(rd)):
                            problems.append("rename across rope folder: %s %s" % (a, b))
                        else:
                            effects.append(("rename", a[len(rd):], b[len(rd):]))
            elif call in ("unlink", "unlinkat"):
                if r == 0 and strs and strs[0].decode().startswith(rd):
                    effects.append(("unlink", strs[0].decode()[len(rd):]))
            elif call in ("ftruncate",):
                fd = int(args.split(",")[0])
                if fd in fds:
                    effects.append(("ftruncate", fds[fd][3], int(args.split(",")[1]), fds[fd][0]))
            elif call in ("fsync", "fdatasync", "stat", "newfstatat", "fcntl"):
                pass
            elif call in ("dup", "dup2", "dup3"):
                fd = int(args.split(",")[0])
                if fd in fds:
                    problems.append("dup of tracked fd")
            elif call in ("mkdir", "mkdirat", "rmdir", "link", "linkat", "symlink", "symlinkat", "truncate", "sendfile", "copy_file_range"):
                if any(s.decode("latin-1").startswith(rd) for s in strs) or call in ("sendfile", "copy_file_range"):
                    problems.append("unmodelled syscall on rope folder: " + line[:80])
    return effects, problems


class Disk:
    """Names -> inodes -> bytes, so that writes through a handle follow a renamed file."""

    def __init__(self, files):
        self.names = {}
        self.data = {}
        self.handles = {}
        for i, (n, b) in enumerate(sorted(files.items())):
            self.names[n] = "i%d" % i
            self.data["i%d" % i] = b

    def copy(self):
        d = Disk({})
        d.names, d.data, d.handles = dict(self.names), dict(self.data), dict(self.handles)
        return d

    def files(self):
        return {n: self.data[i] for n, i in self.names.items()}

    def apply(self, eff, nbytes=None):
        k = eff[0]
        if k in ("trunc", "create", "openw"):
            name, hid = eff[1], eff[2]
            if name not in self.names:
                if k == "openw":
                    return
                self.names[name] = "n%d" % hid
                self.data["n%d" % hid] = b""
            elif k == "trunc":
                self.data[self.names[name]] = b""
            self.handles[hid] = self.names[name]
        elif k == "write":
            ino = self.handles[eff[4]]
            data = eff[3] if nbytes is None else eff[3][:nbytes]
            cur = self.data[ino]
            off = len(cur) if eff[2] is None else eff[2]
            if off > len(cur):
                cur = cur + b"\0" * (off - len(cur))
            self.data[ino] = cur[:off] + data + cur[off + len(data):]
        elif k == "rename":
            if eff[1] in self.names:
                self.names[eff[2]] = self.names.pop(eff[1])
        elif k == "unlink":
            self.names.pop(eff[1], None)
        elif k == "ftruncate":
            ino = self.handles[eff[3]]
            self.data[ino] = self.data[ino][:eff[2]]


def read_dir(d):
    out = {}
    if os.path.isdir(d):
        for n in sorted(os.listdir(d)):
            p = os.path.join(d, n)
            if os.path.isfile(p):
                with open(p, "rb") as fh:
                    out[n] = fh.read()
    return out


class C18(Check):
    pid = "C18"
    level = "fault_enumeration"
    rule = ("cases = history scenarios (1-2 sessions of changes/undo/analysis, with and without earlier data files); for each, "
            "the real save is run once under strace and its ordered effect list on the rope folder recovered; evaluations = one "
            "reopen per crash state = every prefix of the effect list x every byte prefix of every write (process-death model); "
            "non-trivial = crash states whose rope-folder content differs from both the pre-save and the completed-save content; "
            "distinct by content of the rope folder")
    assumptions = ["crash model: process death - the OS keeps exactly what was passed to write(2)/rename(2) so far, in program order (no power-loss reordering)",
                   "the system-call log of one save is the ground truth; the harness fails closed (exit 2) on any system call it does not model or if replaying all effects does not reproduce the real final rope folder",
                   "the project's source files are in their final state (they were written before the save started)"]
    chunksize = 1
    floor_nontrivial = 20

    def bound_text(self, tier):
        return ("%d scenarios x all byte-granular crash points" % len(self.cases(tier)))

    def cases(self, tier):
        out = [dict(s) for s in SCENARIOS_QUICK]
        if tier == "thorough":
            import itertools
            for n in (1, 2, 3):
                for seq in itertools.product(OPS2, repeat=n):
                    for prior in (True, False):
                        base = [S1] if prior else []
                        first = [] if prior else [("CF", "", "m.py"), ("W", "m.py", "v1")]
                        out.append({"name": "gen", "sessions": base + [first + list(seq)], "gen": True})
        return out

    def setup_worker(self):
        self.scratch = Scratch("c18")

    def selftest(self):
        rc = subprocess.run(["strace", "-V"], stdout=subprocess.PIPE, stderr=subprocess.STDOUT)
        return [] if rc.returncode == 0 else ["strace is not available"]

    def _observe(self, root):
        """Open the project on `root` and use it; returns (problem or None, history view, objectdb view)."""
        p = None
        try:
            try:
                p = Project(root, save_history=True, save_objectdb=True)
            except Exception as e:
                return "open-raises:" + type(e).__name__, repr(e), None, None
            try:
                hv = view_history(p)
            except Exception as e:
                return "history-raises:" + type(e).__name__, repr(e), None, None
            try:
                ov = view_objectdb(p)
            except Exception as e:
                return "objectdb-raises:" + type(e).__name__, repr(e), hv, None
            try:
                for f in sorted(p.get_python_files(), key=lambda r: r.path):
                    p.get_pymodule(f)
                    p.pycore.analyze_module(f)
            except Exception as e:
                return "analyse-raises:" + type(e).__name__, repr(e), hv, ov
            return None, None, hv, ov
        finally:
            if p is not None:
                try:
                    # never save: the crash state must stay as materialised
                    p.data_files.hooks[:] = []
                    p.close()
                except Exception:
                    pass

    def run(self, case):
        res = {"n": 0, "nt": [], "out": {}, "mech": {}, "fails": [], "passfeat": []}
        work = self.scratch.new()
        root = os.path.join(work, "proj")
        os.mkdir(root)
        log = os.path.join(work, "trace.log")
        env = dict(os.environ)
        scen = {"sessions": [[list(o) for o in s] for s in case["sessions"]], "save": case.get("save", "close")}
        cmd = ["strace", "-f", "-o", log, "-e", "trace=" + TRACE, "-s", "100000000", "-xx",
               sys.executable, "-X", "utf8", "-m", "mc.checks.c18_child", root, json.dumps(scen)]
        pr = subprocess.run(cmd, env=env, stdout=subprocess.PIPE, stderr=subprocess.STDOUT, text=True)
        if pr.returncode != 0:
            if case.get("gen"):
                res["out"]["scenario-infeasible"] = 1
                res["n"] = 1
                self.scratch.drop(work)
                return res
            return {"harness": "child failed: " + pr.stdout[-800:]}
        ropedir = os.path.join(root, ".ropeproject")
        effects, problems = parse_trace(log, ropedir)
        pre = read_dir(root + ".pre")
        final = read_dir(ropedir)
        simd = Disk(pre)
        for e in effects:
            simd.apply(e)
        sim = simd.files()
        if problems or sim != final:
            return {"harness": "effect log does not reproduce the save: %s; files differ: %s" % (
                problems[:3], sorted(k for k in set(sim) | set(final) if sim.get(k) != final.get(k)))}
        # reference views: complete old and complete new version
        tree = {k: v for k, v in snap(root).items()}

        def materialise(files):
            d = self.scratch.new(tree)
            rd = os.path.join(d, ".ropeproject")
            os.makedirs(rd, exist_ok=True)
            for n, data in files.items():
                with open(os.path.join(rd, n), "wb") as fh:
                    fh.write(data)
            return d

        d = materialise(final)
        prob_new, msg, hv_new, ov_new = self._observe(d)
        self.scratch.drop(d)
        d = materialise(pre)
        prob_old, msg2, hv_old, ov_old = self._observe(d)
        self.scratch.drop(d)
        if prob_new or prob_old:
            return {"harness": "complete save cannot be reopened: %s %s %s %s" % (prob_new, msg, prob_old, msg2)}
        empty_h = ([], [])
        seen = set()
        kinds = [e[0] for e in effects]
        res["mech"]["effects:" + ",".join(kinds)] = 1

        def check(files, where):
            key = h8(sorted((k, v.hex()) for k, v in files.items()))
            res["n"] += 1
            if key in seen:
                return
            seen.add(key)
            if files != pre and files != final:
                res["nt"].append(h8([case["sessions"], key]))
            d = materialise(files)
            try:
                prob, msg, hv, ov = self._observe(d)
                prob2 = None
                if prob is None:
                    # life goes on after the crash: an ordinary session on top of the crash state saves again
                    # (left-over temporary files are part of that state), and the result must open as well
                    try:
                        p2 = Project(d, save_history=True, save_objectdb=True)
                        from ..histops import apply_op
                        apply_op(p2, ("CF", "", "after_crash.py"), "after-crash")
                        hv2 = view_history(p2)
                        p2.close()
                        prob2, msg2, hv3, ov3 = self._observe(d)
                        if prob2 is None and hv3 != hv2:
                            prob2, msg2 = "history-differs", "saved %r, reopened %r" % (hv2, hv3)
                    except Exception as e:
                        prob2, msg2 = "session-raises:" + type(e).__name__, repr(e)[:300]
            finally:
                self.scratch.drop(d)
            # a second copy of the crash state: the first session after the crash never looks at the history, it only
            # analyses a module and saves; the history must still be a complete version afterwards
            prob3 = None
            if prob is None:
                d3 = materialise(files)
                try:
                    try:
                        p3 = Project(d3, save_history=True, save_objectdb=True)
                        pyfiles = p3.get_python_files()
                        if pyfiles:
                            p3.pycore.analyze_module(sorted(pyfiles, key=lambda r: r.path)[0])
                        p3.close()
                    except Exception as e:
                        prob3, msg3 = "quiet-session-raises:" + type(e).__name__, repr(e)[:300]
                    if prob3 is None:
                        prob3, msg3, hv4, ov4 = self._observe(d3)
                        if prob3 is None and hv4 not in (hv_old, hv_new, empty_h):
                            prob3, msg3 = "history-torn", repr(hv4)[:300]
                finally:
                    self.scratch.drop(d3)
            feats = ["at:" + where[0], "file:" + where[1]] + (["partial-write"] if where[2] else [])
            detail = {"scenario": case, "crash_after_effect": where[3], "effect": where[0], "file": where[1],
                      "bytes_of_write": where[4], "files": {k: len(v) for k, v in files.items()}}
            if prob:
                res["fails"].append({"kind": prob, "features": feats, "detail": dict(detail, message=msg), "size": where[3]})
                res["out"][prob] = res["out"].get(prob, 0) + 1
                return
            if prob3:
                res["fails"].append({"kind": "after-quiet-session:" + prob3, "features": feats, "detail": dict(detail, message=msg3), "size": where[3]})
            if prob2:
                res["fails"].append({"kind": "after-crash-session:" + prob2, "features": feats, "detail": dict(detail, message=msg2), "size": where[3]})
            hk = "new" if hv == hv_new else "old" if hv == hv_old else "empty" if hv == empty_h else "torn"
            ok_ = "unknown" if ov is None else "new" if ov == ov_new else "old" if ov == ov_old else "empty" if ov == {} else "torn"
            res["out"]["history=%s objectdb=%s" % (hk, ok_)] = res["out"].get("history=%s objectdb=%s" % (hk, ok_), 0) + 1
            if hk == "torn":
                res["fails"].append({"kind": "history-torn", "features": feats, "size": where[3],
                                     "detail": dict(detail, got=repr(hv)[:600], old=repr(hv_old)[:300], new=repr(hv_new)[:300])})
            if ok_ == "torn":
                res["fails"].append({"kind": "objectdb-torn", "features": feats, "size": where[3],
                                     "detail": dict(detail, got=repr(ov)[:600], old=repr(ov_old)[:300], new=repr(ov_new)[:300])})

        cur = Disk(pre)
        check(cur.files(), ("before-save", "-", False, 0, None))
        for i, e in enumerate(effects):
            if e[0] == "write":
                for nb in range(1, len(e[3])):
                    part = cur.copy()
                    part.apply(e, nb)
                    check(part.files(), ("write", e[1], True, i, nb))
            cur.apply(e)
            check(cur.files(), (e[0], e[1], False, i + 1, None))
        # ---- the save is cut short by an exception that unwinds the stack (Ctrl-C while closing): KeyboardInterrupt is
        # raised at the k-th write call of the save, for every k; with-blocks and finally clauses of the save run, then the
        # process is gone.  Rebuilt in-process for every k.
        import builtins
        import rope.base.project as rp
        from ..histops import apply_op

        class _Cut:
            def __init__(self, fh, counter, at):
                self.fh, self.counter, self.at = fh, counter, at

            def write(self, data):
                self.counter[0] += 1
                if self.counter[0] == self.at:
                    self.fh.write(data[:max(1, len(data) // 2)])
                    raise KeyboardInterrupt()
                return self.fh.write(data)

            def __enter__(self):
                return self

            def __exit__(self, *a):
                self.fh.close()
                return False

            def __getattr__(self, name):
                return getattr(self.fh, name)

        k = 0
        while k < 5000:
            k += 1
            d = self.scratch.new()
            r2 = os.path.join(d, "proj")
            os.mkdir(r2)
            counter = [0]
            interrupted = False
            n_ = 0
            try:
                for si, session in enumerate(case["sessions"]):
                    p_ = Project(r2, save_history=True, save_objectdb=True)
                    for op in session:
                        n_ += 1
                        apply_op(p_, tuple(op), "c%d" % n_)
                    if si < len(case["sessions"]) - 1:
                        p_.close()
                rp.open = lambda path, mode="r", *a, **kw: (_Cut(builtins.open(path, mode, *a, **kw), counter, k)
                                                            if "w" in mode and str(path).endswith(".tmp") else builtins.open(path, mode, *a, **kw))
                try:
                    if case.get("save") == "sync":
                        p_.sync()
                    else:
                        p_.close()
                except KeyboardInterrupt:
                    interrupted = True
                finally:
                    del rp.open
                if not interrupted:
                    self.scratch.drop(d)
                    break
                res["n"] += 1
                prob, msg, hv, ov = self._observe(r2)
                feats = ["at:interrupt-in-write", "unwinding-interrupt"]
                detail = {"scenario": case, "interrupted_at_write_call": k}
                if prob:
                    res["fails"].append({"kind": prob, "features": feats, "detail": dict(detail, message=msg), "size": k})
                else:
                    if hv not in (hv_new, hv_old, empty_h):
                        res["fails"].append({"kind": "history-torn", "features": feats, "size": k, "detail": dict(detail, got=repr(hv)[:600])})
                    if ov is not None and ov not in (ov_new, ov_old, {}):
                        res["fails"].append({"kind": "objectdb-torn", "features": feats, "size": k, "detail": dict(detail, got=repr(ov)[:600])})
                    res["out"]["interrupt:ok"] = res["out"].get("interrupt:ok", 0) + 1
            finally:
                if hasattr(rp, "open"):
                    del rp.open
                self.scratch.drop(d)
        res["mech"]["unwinding-interrupts"] = k - 1
        res["sample"] = {"scenario": case, "effects": [(e[0], e[1]) + ((len(e[3]),) if e[0] == "write" else ()) for e in effects],
                         "crash_states": len(seen), "interrupted_write_calls": k - 1}
        self.scratch.drop(work)
        shutil.rmtree(root + ".pre", ignore_errors=True)
        return res


CHECK = C18()
