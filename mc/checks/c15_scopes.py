"""C15 - scopes and name tables agree with Python's own symbol table.

Space: every binding construct of the 3.12 grammar (35 atoms: assignment forms, parameter
kinds, imports, def/class, loop/with/except/walrus targets, match captures, global/nonlocal,
del, type alias, comprehensions, lambdas) placed at the innermost level of every chain of
scope kinds (function / class, depth <= 3), x which of two names the enclosing levels bind,
plus comprehension- and parameter-specific schemas.
Reference: the binder (language rules over ast), validated on every single program against
CPython's symtable before it is used; a disagreement there is a HARNESS error, never a verdict."""
import ast
import itertools
import os

from rope.base import libutils
from rope.base.project import Project

from ..binder import build, check_against_symtable, owner_scope, resolve
from ..core import Check, h8
from ..fsutil import Scratch

ATOMS = [
    ("assign", "{n} = 1"), ("annassign", "{n}: int = 1"), ("augassign", "{n} = 0\n{n} += 1"), ("tuple-target", "({n}, c) = (1, 2)"),
    ("starred-in-tuple", "c, *{n} = [1, 2]"), ("starred-in-paren-tuple", "(c, *{n}) = [1, 2]"), ("for-starred", "for c, *{n} in [[1, 2]]:\n    pass"),
    ("with-starred", "with open('f') as (c, *{n}):\n    pass"),
    ("walrus-comp-value", "(c := [{n} for {n} in []])"), ("walrus-nested", "(c := ({n} := 1))"), ("walrus-genexp-value", "(c := list({n} for {n} in []))"),
    ("multiline-list", "{n} = [\n    1,\n    2,\n]"), ("multiline-call", "{n} = max(\n    1,\n    2)"), ("multiline-backslash", "{n} = 1 + \\\n    2"),
    ("multiline-string", "{n} = \"\"\"x\ny\"\"\""),
    ("comps-in-ifexp", "c = [{n} for {n} in []] if any({n} for {n} in []) else 0"), ("comps-in-dict-key-and-value", "c = {{0: [{n} for {n} in []], tuple({n} for {n} in []): 1}}"),
    ("comps-in-call-kw-and-star", "c = dict(k=[{n} for {n} in []], **{{str({n}): 0 for {n} in []}})"),
    ("star-target", "[{n}, *c] = [1, 2]"), ("starred-name", "[c, *{n}] = [1, 2]"), ("for", "for {n} in []:\n    pass"),
    ("for-tuple", "for ({n}, c) in []:\n    pass"), ("for-else", "for c in []:\n    pass\nelse:\n    {n} = 1"),
    ("with", "with open('f') as {n}:\n    pass"), ("with-tuple", "with open('f') as ({n}, c):\n    pass"),
    ("with-multi", "with open('f'), open('g') as {n}:\n    pass"),
    ("except", "try:\n    pass\nexcept Exception as {n}:\n    pass"), ("try-finally", "try:\n    pass\nfinally:\n    {n} = 1"),
    ("import", "import {n}"), ("import-dotted", "import {n}.sub"), ("import-as", "import os as {n}"),
    ("from-import", "from os import {n}"), ("from-import-as", "from os import path as {n}"),
    ("def", "def {n}():\n    pass"), ("async-def", "async def {n}():\n    pass"), ("class", "class {n}:\n    pass"),
    ("walrus", "({n} := 1)"), ("walrus-in-if", "if ({n} := 1):\n    pass"), ("walrus-in-comp", "[({n} := 1) for z in []]"),
    ("global", "global {n}\n{n} = 1"), ("nonlocal", "nonlocal {n}\n{n} = 1"), ("del", "{n} = 1\ndel {n}"),
    ("match-capture", "match c0:\n    case {n}:\n        pass"), ("match-seq", "match c0:\n    case [{n}, *c]:\n        pass"),
    ("match-map", "match c0:\n    case {{'k': {n}, **c}}:\n        pass"), ("match-class-as", "match c0:\n    case int(real={n}) as c:\n        pass"),
    ("type-alias", "type {n} = int"), ("comp", "[0 for {n} in []]"), ("genexp", "list(0 for {n} in [])"),
    ("dictcomp", "{{0: 0 for {n} in []}}"), ("nested-comp", "[[{n} for {n} in [c]] for c in []]"), ("lambda", "(lambda {n}: {n})"),
    ("while-else", "while False:\n    pass\nelse:\n    {n} = 1"), ("if-else", "if c0:\n    {n} = 1\nelse:\n    c = 1"),
    ("comp-in-return-like", "c = len([{n} for {n} in []]) + 1"), ("comp-in-augassign", "c = 0\nc += sum({n} for {n} in [])"),
    ("comp-in-if-test", "if [{n} for {n} in []]:\n    pass"), ("comp-in-call-kw", "c = dict(k=[{n} for {n} in []])"),
    ("comp-in-subscript", "c = [0][len([{n} for {n} in []])]"), ("comp-in-for-iter", "for c in [{n} for {n} in []]:\n    pass"),
    ("comp-in-while-test", "while [{n} for {n} in []]:\n    pass"), ("comp-in-with", "with open(str([{n} for {n} in []])) as c:\n    pass"),
    ("comp-in-assert", "assert not [{n} for {n} in []]"), ("comp-in-lambda", "c = lambda: [{n} for {n} in []]"),
    ("dedented-comment-in-if", "if c0:\n    {n} = 1\n# low comment\n    c = 2"), ("dedented-comment-in-for", "for c in []:\n    {n} = 1\n  # low comment\n    {n} = 2"),
    ("col0-comment-in-if", "if c0:\n    {n} = 1\n#COL0 comment at column zero\n    c = 2"),
    ("col0-comment-in-while", "while c0:\n    {n} = 1\n#COL0 comment at column zero\n    break"),
    ("dedented-comment-in-try", "try:\n    {n} = 1\n# low comment\nfinally:\n    c = 2"), ("blank-lines-in-if", "if c0:\n    {n} = 1\n\n\n    c = 2"),
]
PARAMS = [("p-normal", "{n}"), ("p-default", "{n}=1"), ("p-posonly", "{n}, /"), ("p-kwonly", "*, {n}"), ("p-kwonly-default", "*, {n}=1"),
          ("p-vararg", "*{n}"), ("p-kwarg", "**{n}"), ("p-mixed", "c, /, d, *e, {n}, **f"), ("p-annotated", "{n}: int"), ("p-none", "")]
# F function, C class, P method decorated with @property, S function decorated with @staticmethod
CHAINS = ["", "F", "C", "FF", "FC", "CF", "CC", "FFF", "FCF", "CFF", "CFC", "FFC", "CP", "CS", "S", "CPF", "CPC", "FCP", "CSF"]


def indent(s, n):
    # lines starting with "#COL0" are comments that stay at column 0 whatever the nesting
    return "\n".join((l if l.startswith("#COL0") else " " * n + l) if l else l for l in s.split("\n"))


def make_program(chain, atom_src, outer, params, use):
    """outer: tuple per level (module + each chain level except innermost) of names bound there ('', 'a', 'b', 'ab')."""
    lines = []
    ind = 0
    lines.append("c0 = 0")
    for nm in outer[0]:
        lines.append("%s = 0" % nm)
    for i, k in enumerate(chain):
        innermost = i == len(chain) - 1
        if k == "F":
            ptxt = params if innermost else "q%d" % i
            lines.append(indent("def f%d(%s):" % (i, ptxt), ind))
        elif k == "P":
            lines.append(indent("@property", ind))
            lines.append(indent("def f%d(self):" % i, ind))
        elif k == "S":
            lines.append(indent("@staticmethod", ind))
            lines.append(indent("def f%d(q%d):" % (i, i), ind))
        else:
            lines.append(indent("class K%d:" % i, ind))
        ind += 4
        if not innermost:
            for nm in outer[i + 1]:
                lines.append(indent("%s = %d" % (nm, i + 1), ind))
    if use.startswith("FIRST:"):
        lines.append(indent(use[6:], ind))
        lines.append(indent(atom_src, ind))
        lines.append("tail_marker = 0")
    else:
        lines.append(indent(atom_src, ind))
        lines.append(indent(use, ind))
    return "\n".join(lines) + "\n"


class C15(Check):
    pid = "C15"
    level = "exploration"
    rule = ("cases = (scope chain in 19 chains of function/class nesting to depth 3 incl. methods decorated with @property/@staticmethod, binding atom in 70 constructs binding name a, "
            "names bound by the enclosing levels in {none, a, b, a+b} uniformly, or independently {none, a+b} per level, parameter "
            "list of the innermost function in 10 kinds, a trailing statement reading a, b and c); programs that CPython rejects "
            "are dropped; evaluations = sub-checks per program: scope tree (kinds and line extents), owned names per scope, "
            "lookup() of every read name from every scope, holding scope for every body line and identifier offset; non-trivial = "
            "programs with at least one nested scope or a binding construct other than plain assignment; distinct by source")
    assumptions = ["reference = the binder, checked against CPython's symtable on every program (PEP 709 inlining accounted for)",
                   "lambda scopes are not compared (the property lists function, class and comprehension scopes)",
                   "instance attributes collected from self.x = ... are accepted as extra names of a class scope"]
    chunksize = 16

    def bound_text(self, tier):
        return "depth<=3 chains x 40 atoms x 4 outer-binding choices x 10 parameter kinds (innermost F)"

    def cases(self, tier):
        out = []
        for chain in CHAINS:
            for ai in range(len(ATOMS)):
                levels = len(chain) + 1
                obs = ["", "a", "b", "ab"] + ["|".join(c) for c in itertools.product(("", "ab"), repeat=levels) if len(set(c)) > 1]
                for ob in obs:
                    plist = range(len(PARAMS)) if chain.endswith("F") else [9]
                    for pi in plist:
                        if tier == "quick" and pi not in (0, 9) and ai not in (0, 25, 26, 33):
                            continue
                        out.append({"chain": chain, "atom": ai, "outer": ob, "param": pi, "pname": "b"})
                        if ob in ("", "ab") and pi in (0, 9) and chain:
                            out.append({"chain": chain, "atom": ai, "outer": ob, "param": pi, "pname": "b", "atom_last": True})
                        if pi != 9 and ai in (0, 26):
                            out.append({"chain": chain, "atom": ai, "outer": ob, "param": pi, "pname": "a"})
        return out

    def setup_worker(self):
        self.scratch = Scratch("c15")
        self.root = self.scratch.new()
        self.project = Project(self.root, ropefolder=None)

    def run(self, case):
        triage = os.environ.get("MC_TRIAGE") == "1"
        res = {"n": 0, "nt": [], "out": {}, "mech": {}, "fails": [], "passfeat": []}
        chain = case["chain"]
        aname, atom = ATOMS[case["atom"]]
        atom_src = atom.format(n="a")
        params = PARAMS[case["param"]][1].format(n=case["pname"])
        if "|" in case["outer"]:
            outer = tuple(case["outer"].split("|"))
        else:
            outer = tuple(case["outer"] for _ in range(len(chain) + 1))
        use = "r = (a, b, c)"
        if case.get("atom_last"):
            use = "FIRST:r = (b, c)"
        src = make_program(chain, atom_src, outer, params, use)
        try:
            compile(src, "<c15>", "exec")
        except SyntaxError:
            res["n"] = 1
            res["out"]["rejected-by-cpython"] = 1
            return res
        problems = check_against_symtable(src)
        if problems:
            return {"harness": "binder disagrees with symtable on %r: %r" % (src, problems[:2])}
        tree, b = build(src)
        feats0 = (["atom-last"] if case.get("atom_last") else []) + ["atom:" + aname, "chain:" + (chain or "module"), "innermost:" + (chain[-1] if chain else "M"), "outer:" + (case["outer"] or "none"),
                  "param:" + PARAMS[case["param"]][0], "pname:" + case["pname"]]
        mod = libutils.get_string_module(self.project, src)
        gscope = mod.get_scope()
        nontrivial = bool(chain) or aname != "assign"
        if nontrivial:
            res["nt"].append(h8(src))

        def fail(kind, extra_feats, detail):
            res["fails"].append({"kind": kind, "features": sorted(set(feats0 + extra_feats)), "size": len(src),
                                 "detail": dict(detail, source=src), "case": case})

        # ---- (S) scope tree
        def ref_tree(sc):
            kids = []
            for c in sorted(sc.children, key=lambda c: (c.lineno, getattr(c.node, "col_offset", 0))):
                if c.kind == "lambda":
                    kids += ref_tree_children_through(c)
                else:
                    kids.append(c)
            return kids

        def ref_tree_children_through(sc):
            out = []
            for c in sorted(sc.children, key=lambda c: (c.lineno, getattr(c.node, "col_offset", 0))):
                if c.kind == "lambda":
                    out += ref_tree_children_through(c)
                else:
                    out.append(c)
            return out

        def rkind(sc):
            return {"Function": "function", "Class": "class", "Module": "module"}.get(sc.get_kind(), "comp")

        pairs = []   # (ref scope, rope scope)
        ok_tree = True

        def walk(rsc, ssc, depth=0):
            nonlocal ok_tree
            res["n"] += 1
            refk = ref_tree(rsc)
            # siblings on one line are paired by column (rope lists them in AST field order, e.g. the test of a
            # conditional expression before its body)
            ropek = sorted(ssc.get_scopes(), key=lambda s: (s.get_start(), getattr(s.pyobject.get_ast(), "col_offset", 0)))
            r_desc = [(c.kind, c.lineno, c.node.end_lineno) for c in refk]
            s_desc = [(rkind(s), s.get_start(), s.get_end()) for s in ropek]
            if r_desc != s_desc:
                ok_tree = False
                missing = [d for d in r_desc if d not in s_desc]
                extra = [d for d in s_desc if d not in r_desc]
                ef = ["scope-missing:" + d[0] for d in missing] + ["scope-extra:" + d[0] for d in extra]
                if missing and extra and [d[:2] for d in missing] == [d[:2] for d in extra]:
                    ef = ["scope-end-differs:" + d[0] for d in missing]
                fail("scope-tree-differs", ef, {"in_scope": rsc.path(), "interpreter": r_desc, "rope": s_desc})
                # continue with the scopes that do match on (kind, start)
                for c in refk:
                    for s in ropek:
                        if (c.kind, c.lineno) == (rkind(s), s.get_start()):
                            pairs.append((c, s))
                            walk(c, s, depth + 1)
                return
            for c, s in zip(refk, ropek):
                pairs.append((c, s))
                walk(c, s, depth + 1)

        pairs.append((b.root, gscope))
        walk(b.root, gscope)
        res["mech"]["scope-tree"] = 1

        # ---- (N) owned names
        inst_attrs = {}
        for n in ast.walk(tree):
            if isinstance(n, ast.ClassDef):
                s_ = set()
                for m in ast.walk(n):
                    if isinstance(m, ast.Attribute) and isinstance(m.ctx, ast.Store) and isinstance(m.value, ast.Name) and m.value.id == "self":
                        s_.add(m.attr)
                inst_attrs[id(n)] = s_
        by_ref_early = {id(r): s_ for r, s_ in pairs}
        for rsc, ssc in pairs:
            res["n"] += 1
            ref_owned = {n for n in rsc.bound if n not in rsc.globals_ and n not in rsc.nonlocals}
            if rsc.kind == "module":
                for c in rsc.all():
                    ref_owned |= {n for n in c.bound if n in c.globals_}
            # lambdas have no rope scope: their parameters are not expected anywhere
            try:
                if rsc.kind in ("module", "class", "comp"):
                    rope_owned = set(ssc.get_defined_names().keys())
                else:
                    rope_owned = set(ssc.get_names().keys())
                if rsc.kind != "module":
                    # an entry that is the very PyName of the scope the interpreter binds the name in (rope's way of
                    # recording global / nonlocal declarations) is not owned here
                    names_ = ssc.get_names()
                    for n in list(rope_owned):
                        if n in rsc.globals_ or n in rsc.nonlocals:
                            own = owner_scope(rsc, n)
                            own_rope = by_ref_early.get(id(own)) if own is not None else None
                            if own_rope is not None and own_rope.get_names().get(n) is names_.get(n):
                                rope_owned.discard(n)
            except Exception as e:
                fail("internal:" + type(e).__name__, ["in:get_names"], {"scope": rsc.path(), "exception": repr(e)})
                continue
            missing = ref_owned - rope_owned
            extra = rope_owned - ref_owned
            if rsc.kind == "class":
                extra -= inst_attrs.get(id(rsc.node), set())
            if missing or extra:
                ef = []
                for n in missing:
                    for role in rsc.bound.get(n, ["via-global"]):
                        ef.append("missing-role:" + role)
                for n in extra:
                    ef.append("extra-name-in:" + rsc.kind)
                    if n in rsc.nonlocals:
                        ef.append("extra:nonlocal-declared")
                    if n in rsc.globals_:
                        ef.append("extra:global-declared")
                fail("names-differ", ef + ["scope-kind:" + rsc.kind], {"scope": rsc.path(), "missing": sorted(missing), "extra": sorted(extra),
                                                                     "rope": sorted(rope_owned), "interpreter": sorted(ref_owned)})
        res["mech"]["names"] = 1

        # ---- (L) lookup of every read name from the scope it is read in
        by_ref = {id(r): s for r, s in pairs}
        bind_lines = {}
        for o in b.occs:
            if o.role in ("store", "del", "param", "defname", "import", "importfrom", "exceptname", "matchname"):
                tgt = owner_scope(o.scope, o.name if o.role not in ("import",) else (o.extra.asname or o.extra.name.split(".")[0]))
                nm = o.name if o.role not in ("import", "importfrom") else (o.extra.asname or o.extra.name.split(".")[0])
                if tgt is not None:
                    bind_lines.setdefault((id(tgt), nm), set()).add(o.lineno)
        for o in b.occs:
            if o.role != "use" or o.name not in ("a", "b", "c", "c0"):
                continue
            sc = o.scope
            if sc.kind == "lambda" or id(sc) not in by_ref:
                continue
            res["n"] += 1
            target = resolve(sc, o.name)
            try:
                pn = by_ref[id(sc)].lookup(o.name)
            except Exception as e:
                fail("internal:" + type(e).__name__, ["in:lookup"], {"name": o.name, "scope": sc.path(), "exception": repr(e)})
                continue
            if target is None:
                if pn is not None:
                    try:
                        line = pn.get_definition_location()[1]
                    except Exception:
                        line = "?"
                    if line is not None:
                        fail("lookup-differs", ["lookup:expected-unbound", "from:" + sc.kind], {"name": o.name, "from": sc.path(), "rope_line": line, "interpreter": None})
                continue
            want = bind_lines.get((id(target), o.name), set())
            if pn is None:
                roles = sorted(target.bound.get(o.name, []))
                fail("lookup-differs", ["lookup:rope-finds-nothing", "from:" + sc.kind] + ["target-role:" + r for r in roles],
                     {"name": o.name, "from": sc.path(), "interpreter_scope": target.path(), "interpreter_lines": sorted(want)})
                continue
            target_rope = by_ref.get(id(target))
            if target_rope is None:
                continue
            try:
                tnames = target_rope.get_names()
            except Exception:
                continue
            roles = sorted(target.bound.get(o.name, []))
            if o.name not in tnames:
                # the defining scope's table lacks the name (reported by names-differ); rope resolved it elsewhere
                fail("lookup-differs", ["lookup:binding-scope-lacks-name", "from:" + sc.kind, "to:" + target.kind] + ["target-role:" + r for r in roles],
                     {"name": o.name, "from": sc.path(), "interpreter_scope": target.path()})
                continue
            if pn is not tnames[o.name]:
                ef = ["lookup:wrong-binding", "from:" + sc.kind, "to:" + target.kind] + ["target-role:" + r for r in roles]
                if o.name in sc.nonlocals:
                    ef.append("name-declared-nonlocal")
                if o.name in sc.globals_:
                    ef.append("name-declared-global")
                if sc.kind == "class" and o.name in sc.bound:
                    ef.append("class-body-name")
                try:
                    line = pn.get_definition_location()[1]
                except Exception:
                    line = None
                fail("lookup-differs", ef, {"name": o.name, "from": sc.path(), "rope_line": line, "interpreter_scope": target.path(),
                                            "interpreter_lines": sorted(want)})
        res["mech"]["lookup"] = 1

        # ---- (H) holding scope for body lines
        if ok_tree:
            stmts_holder = {}
            for rsc, ssc in pairs:
                if rsc.kind in ("comp",):
                    continue
                body = rsc.node.body if not isinstance(rsc.node, ast.Module) else rsc.node.body
                for st in body:
                    stmts_holder[st.lineno] = rsc
                    # continuation lines of a simple statement belong to the same scope
                    if not hasattr(st, "body"):
                        for ln in range(st.lineno + 1, st.end_lineno + 1):
                            stmts_holder[ln] = rsc
            for lineno, rsc in sorted(stmts_holder.items()):
                res["n"] += 1
                try:
                    got = gscope.get_inner_scope_for_line(lineno)
                except Exception as e:
                    fail("internal:" + type(e).__name__, ["in:get_inner_scope_for_line"], {"line": lineno, "exception": repr(e)})
                    continue
                stmt_is_def = any(isinstance(n, (ast.FunctionDef, ast.AsyncFunctionDef, ast.ClassDef)) and n.lineno == lineno for n in ast.walk(tree))
                has_comp = any(isinstance(n, (ast.ListComp, ast.SetComp, ast.DictComp, ast.GeneratorExp)) and n.lineno <= lineno <= n.end_lineno for n in ast.walk(tree))
                if stmt_is_def or has_comp:
                    continue
                want = (rsc.kind, rsc.lineno if rsc.kind != "module" else 1)
                g = (rkind(got), got.get_start())
                if g != want:
                    fail("holding-scope-differs", ["for:line", "want:" + rsc.kind], {"line": lineno, "rope": g, "interpreter": want})
            res["mech"]["holding-scope"] = 1
            # the same question by offset, asked at the loop variable of every comprehension
            lstarts = [0]
            for l_ in src.split("\n"):
                lstarts.append(lstarts[-1] + len(l_) + 1)
            for rsc, ssc in pairs:
                if rsc.kind != "comp":
                    continue
                tgt = next((n_ for n_ in ast.walk(rsc.node.generators[0].target) if isinstance(n_, ast.Name)), None)
                if tgt is None:
                    continue
                off_ = lstarts[tgt.lineno - 1] + tgt.col_offset
                res["n"] += 1
                try:
                    got = gscope.get_inner_scope_for_offset(off_)
                except Exception as e:
                    fail("internal:" + type(e).__name__, ["in:get_inner_scope_for_offset"], {"offset": off_, "exception": repr(e)})
                    continue
                if got is not ssc:
                    fail("holding-scope-differs", ["for:offset", "want:comp"], {"offset": off_, "rope": (rkind(got), got.get_start()), "interpreter": ("comp", rsc.lineno)})
        res["out"]["program-ok" if not res["fails"] else "program-bad"] = 1
        if triage and not res["fails"]:
            res["passfeat"].append(sorted(feats0))
        res["sample"] = {"source": src}
        return res


CHECK = C15()
