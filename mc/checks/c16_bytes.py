"""C16 - files survive rope byte-for-byte apart from the intended edit.

Space: texts of <=n lines over 9 line atoms x newline convention {LF, CRLF, CR} x final
newline {yes,no} x declared encoding (none, 9 codecs, BOM) x cookie form x cookie position,
restricted to contents encodable in the codec.  For every file: forced write-back of the
same text, replacement of every editable line through File.write, a Rename refactoring
touching one token, undo of each, and write/read-back of the text into a new file.
Oracle: expected bytes are computed independently from the line list (same codec, same
newline convention, same final-newline state, only the edited line replaced)."""
import itertools
import os

from rope.base import change
from rope.base.project import Project
from rope.refactor.rename import Rename

from ..core import Check, h8
from ..fsutil import Scratch

LINES = ["a = 1", "s = 'é'", "t = '€'", "u = '你'", "\tx = 2" if False else "if a:\n\tx = 2", "", "r = '\\r\\n'", "v = 'ÿ\xa0'", "# \x0c form feed ü"]
# (the tab atom is a two-line block so that the module stays valid Python)
CODECS = [None, "utf-8", "UTF-8", "utf8", "latin-1", "iso-8859-15", "cp1252", "koi8-r", "gbk", "BOM"]
FORMS = ["# -*- coding: %s -*-", "# vim: set fileencoding=%s :", "# coding=%s"]
# first physical line when the cookie is on line 2: characters that str.splitlines() treats as line
# boundaries but Python (and bytes.split) do not must not hide the cookie
FIRST = {1: "#!/usr/bin/env python", 2: "# \x0c page", 3: "# caf\x85", 4: "# fs\x1c", 5: "# ls\u2028",
         6: "# " + "generated file - do not edit - " * 12,     # a first line of more than 300 characters
         7: ""}                                                # an empty first line
NEWLINES = {"LF": "\n", "CRLF": "\r\n", "CR": "\r"}


class OldStyleCommands:
    """A file-system commands object of the older interface: no read() method (rope then opens the file itself)."""

    def __init__(self):
        from rope.base.fscommands import FileSystemCommands
        self._fs = FileSystemCommands()

    def create_file(self, path):
        self._fs.create_file(path)

    def create_folder(self, path):
        self._fs.create_folder(path)

    def move(self, path, new_location):
        self._fs.move(path, new_location)

    def remove(self, path):
        self._fs.remove(path)

    def write(self, path, data):
        self._fs.write(path, data)


def codec_of(c):
    return "utf-8" if c in (None, "BOM") else c


def build(lines, nl, final, codec, form, pos):
    """Returns (bytes, list of logical lines incl. cookie/shebang, editable indexes) or None."""
    flat = []
    for l in lines:
        flat.extend(l.split("\n"))
    head = []
    if codec not in (None, "BOM"):
        cookie = FORMS[form] % codec
        head = [cookie] if pos == 0 else [FIRST[pos], cookie]
    elif form != 0 or pos != 0:
        return None
    all_lines = head + flat
    enc = codec_of(codec)
    try:
        parts = [l.encode(enc) for l in all_lines]
    except UnicodeEncodeError:
        return None
    data = NEWLINES[nl].encode().join(parts) + (NEWLINES[nl].encode() if final else b"")
    if codec == "BOM":
        data = b"\xef\xbb\xbf" + data
    editable = [i for i in range(len(head), len(all_lines)) if not all_lines[i].startswith("\t") and not all_lines[i].startswith("if a")]
    return data, all_lines, editable, len(head)


def expected_bytes(all_lines, nl, final, codec):
    enc = codec_of(codec)
    data = NEWLINES[nl].encode().join(l.encode(enc) for l in all_lines) + (NEWLINES[nl].encode() if final else b"")
    if codec == "BOM":
        data = b"\xef\xbb\xbf" + data
    return data


class C16(Check):
    pid = "C16"
    level = "exploration"
    rule = ("cases = (lines<=n over 9 atoms incl. latin-1/euro/CJK/NBSP characters, tab-indented block, empty line, escaped \\r\\n "
            "literal, form feed) x newline {LF,CRLF,CR} x final newline {y,n} x encoding {none, utf-8 x3 spellings, latin-1, "
            "iso-8859-15, cp1252, koi8-r, gbk, BOM} x 3 cookie forms x cookie on line 1 / on line 2 after a shebang, a comment containing FF, NEL(0x85), FS or U+2028, a line of more than 300 characters, or an empty line; one-line texts also through a file-system commands object without read(); contents encodable; "
            "evaluations = per file: forced write-back, File.write replacing each editable line (+undo), Rename of one token "
            "(+undo), an edit after the newline convention was changed behind rope's back (+validate), a rewrite whose text declares another encoding (+undo), new-file write/read-back; non-trivial = evaluations on files with a non-LF newline convention, a non-UTF-8 "
            "codec, a BOM, no final newline or non-ASCII content; distinct by (file bytes, edit)")
    assumptions = ["expected bytes are computed from the line list, independently of rope's codec/newline code",
                   "mixed newline conventions and contents not encodable in the declared codec are outside the quantifier",
                   "the cookie/shebang lines themselves are not edited"]
    chunksize = 16

    def bound_text(self, tier):
        return "texts of <=2 lines" if tier == "quick" else "texts of <=3 lines"

    def cases(self, tier):
        n = 2 if tier == "quick" else 3
        out = []
        for k in range(1, n + 1):
            for idx in itertools.product(range(len(LINES)), repeat=k):
                for nl in NEWLINES:
                    for final in (True, False):
                        out.append({"lines": list(idx), "nl": nl, "final": final})
                        if k == 1:
                            out.append({"lines": list(idx), "nl": nl, "final": final, "oldfs": True})
        return out

    def setup_worker(self):
        self.scratch = Scratch("c16")

    def run(self, case):
        res = {"n": 0, "nt": [], "out": {}, "mech": {}, "fails": [], "passfeat": []}
        triage = os.environ.get("MC_TRIAGE") == "1"
        lines = [LINES[i] for i in case["lines"]]
        nl, final = case["nl"], case["final"]
        for codec in CODECS:
            for form in range(len(FORMS)):
                for pos in (0, 1, 2, 3, 4, 5, 6, 7):
                    if "only" in case and [codec, form, pos] != case["only"]:
                        continue
                    b = build(lines, nl, final, codec, form, pos)
                    if b is None:
                        continue
                    self.one_file(case, res, b, nl, final, codec, form, pos, triage)
        return res

    def one_file(self, case, res, built, nl, final, codec, form, pos, triage):
        data, all_lines, editable, nhead = built
        root = self.scratch.new()
        path = os.path.join(root, "f.py")
        with open(path, "wb") as fh:
            fh.write(data)
        basefeats = ["nl:" + nl, "final:%s" % final, "codec:%s" % codec] + (["cookie-form:%d" % form, "cookie-pos:%d" % pos] if nhead else [])
        nonascii = any(ord(c) > 127 for l in all_lines for c in l)
        interesting = nl != "LF" or codec not in (None, "utf-8", "UTF-8", "utf8") or not final or nonascii
        if nonascii:
            basefeats.append("non-ascii")

        def rd():
            with open(path, "rb") as fh:
                return fh.read()

        def fail(kind, edit, detail):
            res["fails"].append({"kind": kind, "features": sorted(basefeats + ["edit:" + edit] + (["to-nl:" + detail["to"]] if detail.get("to") in NEWLINES else [])), "size": len(all_lines),
                                 "detail": dict(detail, lines=all_lines, newline=nl, final_newline=final, codec=codec, original=repr(data)),
                                 "case": dict(case, only=[codec, form, pos])})

        def done(edit):
            res["n"] += 1
            if interesting:
                res["nt"].append(h8([data.hex(), edit]))
            res["mech"][edit.split("#")[0]] = res["mech"].get(edit.split("#")[0], 0) + 1

        if case.get("oldfs"):
            p = Project(root, ropefolder=None, fscommands=OldStyleCommands())
            basefeats.append("fscommands:without-read")
        else:
            p = Project(root, ropefolder=None)
        try:
            f = p.get_file("f.py")
            text = f.read()
            want_text = ("\ufeff" if codec == "BOM" else "") + "\n".join(all_lines) + ("\n" if final else "")
            if text != want_text:
                fail("decode-differs", "read", {"got": repr(text), "want": repr(want_text)})
            # A: forced write-back of the same text
            cs = change.ChangeSet("same")
            cs.add_change(change.ChangeContents(f, text))
            p.do(cs)
            done("write-back")
            if rd() != data:
                fail("bytes-differ", "write-back", {"got": repr(rd())})
            f.write(text)
            if rd() != data:
                fail("bytes-differ", "File.write(read())", {"got": repr(rd())})
            # B: replace each editable line
            for i in editable:
                new_lines = list(all_lines)
                new_lines[i] = "q = 7"
                want = expected_bytes(new_lines, nl, final, codec)
                new_text = ("\ufeff" if codec == "BOM" else "") + "\n".join(new_lines) + ("\n" if final else "")
                f.write(new_text)
                done("edit-line")
                if rd() != want:
                    fail("bytes-differ", "edit-line", {"line": i, "got": repr(rd()), "want": repr(want)})
                back = f.read()
                if back != new_text:
                    fail("readback-differs", "edit-line", {"got": repr(back), "want": repr(new_text)})
                p.history.undo()
                if rd() != data:
                    fail("bytes-differ", "undo-edit-line", {"line": i, "got": repr(rd())})
            # C: a refactoring touching one token
            if "a = 1" in all_lines:
                i = all_lines.index("a = 1")
                off = len("\n".join(all_lines[:i])) + (1 if i else 0) + (1 if codec == "BOM" else 0)
                new_lines = [("zz = 1" if l == "a = 1" else l.replace("if a:", "if zz:")) for l in all_lines]
                want = expected_bytes(new_lines, nl, final, codec)
                try:
                    ch = Rename(p, f, off).get_changes("zz")
                    p.do(ch)
                    done("rename")
                    if rd() != want:
                        fail("bytes-differ", "rename", {"got": repr(rd()), "want": repr(want)})
                    p.history.undo()
                    if rd() != data:
                        fail("bytes-differ", "undo-rename", {"got": repr(rd())})
                except Exception as e:
                    from rope.base.exceptions import RopeError
                    if isinstance(e, RopeError):
                        res["refused"] = res.get("refused", 0) + 1
                        res["out"]["rename-refused:" + type(e).__name__] = res["out"].get("rename-refused:" + type(e).__name__, 0) + 1
                    else:
                        fail("internal:" + type(e).__name__, "rename", {"exception": repr(e)})
            # E: the file's convention is changed behind rope's back; the same File object must follow it
            if editable and "only_nl2" not in case:
                for nl2 in NEWLINES:
                    if nl2 == nl:
                        continue
                    data2 = expected_bytes(all_lines, nl2, final, codec)
                    with open(path, "wb") as fh:
                        fh.write(data2)
                    st = os.stat(path)
                    os.utime(path, (st.st_atime + 5, st.st_mtime + 5))
                    p.validate(p.root)
                    text2 = f.read()
                    i = editable[0]
                    new_lines = list(all_lines)
                    new_lines[i] = "q = 7"
                    want = expected_bytes(new_lines, nl2, final, codec)
                    f.write(("\ufeff" if codec == "BOM" else "") + "\n".join(new_lines) + ("\n" if final else ""))
                    done("edit-after-convention-change")
                    if text2 != want_text:
                        fail("decode-differs", "read-after-convention-change", {"got": repr(text2), "to": nl2})
                    if rd() != want:
                        fail("bytes-differ", "edit-after-convention-change", {"to": nl2, "got": repr(rd()), "want": repr(want)})
                with open(path, "wb") as fh:
                    fh.write(data)
                p.validate(p.root)
                f.read()
            # F: the new text declares another encoding than the file had: it is stored in the encoding it declares
            if nhead and codec not in (None, "BOM"):
                ci = nhead - 1
                for codec2 in ("utf-8", "latin-1", "cp1252", "koi8-r"):
                    if codec_of(codec2).replace("-", "").lower() == codec.replace("-", "").lower():
                        continue
                    new_lines = list(all_lines)
                    new_lines[ci] = FORMS[form] % codec2
                    try:
                        want = expected_bytes(new_lines, nl, final, codec2)
                    except UnicodeEncodeError:
                        continue
                    new_text = "\n".join(new_lines) + ("\n" if final else "")
                    f.write(new_text)
                    done("cookie-change")
                    if rd() != want:
                        fail("bytes-differ", "cookie-change", {"to": codec2, "got": repr(rd()), "want": repr(want)})
                    back = f.read()
                    if back != new_text:
                        fail("readback-differs", "cookie-change", {"to": codec2, "got": repr(back), "want": repr(new_text)})
                    p.history.undo()
                    if rd() != data:
                        fail("bytes-differ", "undo-cookie-change", {"to": codec2, "got": repr(rd())})
                    f.read()
            # D: text written through rope reads back equal (new file, and through a new project)
            g = p.root.create_file("g.py")
            g.write(text)
            done("new-file")
            if g.read() != text:
                fail("readback-differs", "new-file", {"got": repr(g.read()), "want": repr(text)})
            p2 = Project(root, ropefolder=None)
            t2 = p2.get_file("g.py").read()
            p2.close()
            if t2 != text:
                fail("readback-differs", "new-file-fresh-project", {"got": repr(t2), "want": repr(text)})
            if not res["fails"] and triage:
                res["passfeat"].append(sorted(basefeats))
            res["out"]["file-ok" if not res["fails"] else "file-bad"] = res["out"].get("file-ok", 0) + 1
            res["sample"] = {"bytes": repr(data), "codec": codec, "newline": nl, "final_newline": final}
        except Exception as e:
            # every call above is a documented use of the API on well-formed input: an exception is a failure of the property
            import traceback
            fail("internal:" + type(e).__name__, "api-call", {"exception": repr(e), "where": traceback.format_exc().splitlines()[-6:]})
        finally:
            p.close()
            self.scratch.drop(root)


CHECK = C16()
