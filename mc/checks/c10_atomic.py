"""C10 - a composite change is all-or-nothing under failure and interruption.

Space: every composite (sequence of sub-changes over a 4-entry universe, optionally nested)
that the dictionary model enables, x every deviation: one injected fault at every mutating
file-system command, or one stop() at every task-handle notification, during do / undo / redo.
Oracle: snapshots taken earlier in the same run and identity of the history lists."""
import itertools

from rope.base import change, exceptions, taskhandle
from rope.base.project import Project

from ..core import Check, h8
from ..fsutil import DIR, FaultFS, Scratch, TreeModel, show, snap

INIT = {"a.py": b"A = 1\n", "b.py": b"B = 2\n", "d": DIR, "d/a.py": b"DA = 3\n"}

OPS = [
    ("W", "a.py"), ("W", "b.py"), ("W", "d/a.py"), ("W", "n.py"), ("W", "e/n.py"), ("W", "c.py"),
    ("CF", "", "n.py"), ("CF", "d", "n.py"), ("CF", "e", "n.py"),
    ("CD", "", "e"), ("CD", "d", "s"),
    ("MV", "a.py", "c.py"), ("MV", "a.py", "d/c.py"), ("MV", "a.py", "e/a.py"), ("MV", "b.py", "e/b.py"),
    ("MV", "d", "g"), ("MV", "d", "e/d"), ("MV", "d/a.py", "x.py"), ("MV", "b.py", "a.py"),
    ("RM", "b.py"), ("RM", "d"), ("RM", "d/a.py"), ("RM", "e"),
    # a move whose destination folder does not exist: the file system refuses it, so the composite fails by itself
    ("MVX", "b.py", "q/b.py"),
    # creations whose target already exists: refused, and the existing file / folder must survive the clean-up
    ("CFX", "", "b.py"), ("CDX", "", "d"),
]
OPS_SMALL = [o for o in OPS if o in (
    ("W", "a.py"), ("W", "e/n.py"), ("CF", "e", "n.py"), ("CD", "", "e"), ("MV", "a.py", "e/a.py"),
    ("MV", "d", "e/d"), ("MV", "d", "g"), ("MV", "b.py", "a.py"), ("MV", "a.py", "c.py"), ("W", "c.py"), ("RM", "b.py"), ("RM", "d"))]


def apply_model(m, op):
    """Apply op to TreeModel m; return False when the precondition does not hold."""
    k = op[0]
    try:
        if k == "W":
            if not m.is_file(op[1]):
                return False
            m.write(op[1], b"NEW " + op[1].encode() + b"\n")
        elif k in ("CF", "CD"):
            p = (op[1] + "/" if op[1] else "") + op[2]
            if m.exists(p) or not m.parent_ok(p) or (op[1] and not m.is_dir(op[1])):
                return False
            (m.create_file if k == "CF" else m.create_folder)(p)
        elif k == "MV":
            if not m.exists(op[1]) or m.exists(op[2]) or not m.parent_ok(op[2]):
                return False
            if (op[2] + "/").startswith(op[1] + "/"):
                return False
            m.move(op[1], op[2])
        elif k == "RM":
            if not m.exists(op[1]):
                return False
            m.remove(op[1])
        elif k in ("CFX", "CDX"):
            return m.exists(op[2])
        elif k == "MVX":
            # no effect in the model: the real move must fail (missing destination folder) and undo everything before it
            return m.is_file(op[1]) and not m.exists(op[2].split("/")[0])
        else:
            return False
    except AssertionError:
        return False
    return True


def flat(ops):
    for o in ops:
        if o[0] == "SET":
            yield from flat(o[1])
        else:
            yield o


def enabled(ops):
    m = TreeModel(INIT)
    m.create_file("z.py")
    for o in flat(ops):
        if not apply_model(m, o):
            return None
    return m.t


def build_change(project, ops, model, desc="composite"):
    """Build the rope ChangeSet up-front (as refactorings do); `model` tracks what will exist
    when each sub-change runs, to pick File vs Folder resources."""
    cs = change.ChangeSet(desc)
    for o in ops:
        k = o[0]
        if k == "SET":
            cs.add_change(build_change(project, o[1], model, "inner"))
            continue
        if k == "W":
            cs.add_change(change.ChangeContents(project.get_file(o[1]), "NEW %s\n" % o[1]))
        elif k in ("CF", "CFX"):
            parent = project.get_folder(o[1]) if o[1] else project.root
            cs.add_change(change.CreateFile(parent, o[2]))
        elif k in ("CD", "CDX"):
            parent = project.get_folder(o[1]) if o[1] else project.root
            cs.add_change(change.CreateFolder(parent, o[2]))
        elif k in ("MV", "MVX"):
            res = project.get_folder(o[1]) if model.is_dir(o[1]) else project.get_file(o[1])
            cs.add_change(change.MoveResource(res, o[2], exact=True))
        elif k == "RM":
            res = project.get_folder(o[1]) if model.is_dir(o[1]) else project.get_file(o[1])
            cs.add_change(change.RemoveResource(res))
        apply_model(model, o)
    return cs


class Env:
    """A fresh project with a non-empty undo and redo list, plus the composite under test."""

    def __init__(self, scratch, ops, tight=False):
        self.scratch = scratch
        self.root = scratch.new(INIT)
        self.fs = FaultFS()
        if tight:
            # history limit 1 and one recorded change: the undo list is full when the composite is performed
            self.p = Project(self.root, fscommands=self.fs, ropefolder=None, max_history_items=1)
        else:
            self.p = Project(self.root, fscommands=self.fs, ropefolder=None)
        p = self.p
        c1 = change.ChangeSet("prep1")
        c1.add_change(change.CreateFile(p.root, "z.py"))
        c2 = change.ChangeSet("prep2")
        c2.add_change(change.CreateFile(p.root, "y.py"))
        p.do(c1)
        if not tight:
            p.do(c2)
            p.history.undo()
        m = TreeModel(INIT)
        m.create_file("z.py")
        self.cs = build_change(p, ops, m)

    def hist(self):
        h = self.p.history
        return ([id(c) for c in h.undo_list], [id(c) for c in h.redo_list])

    def close(self):
        try:
            self.p.close()
        finally:
            self.scratch.drop(self.root)


class Stopper:
    def __init__(self, at):
        self.th = taskhandle.TaskHandle("t")
        self.count = 0
        self.at = at
        self.th.add_observer(self)

    def __call__(self):
        self.count += 1
        if self.count == self.at:
            self.th.stop()


def op_str(ops):
    return [("SET", op_str(o[1])) if o[0] == "SET" else ":".join(o) for o in ops]


class C10(Check):
    pid = "C10"
    level = "fault_enumeration"
    rule = ("cases = all sequences (length<=n, incl. nested variants) of sub-changes over the universe "
            "{a.py,b.py,d/,d/a.py,e/} enabled in the dictionary model, plus real refactoring change sets; "
            "evaluations = one execution per (composite, phase in do/undo/redo, deviation) where the deviation is a "
            "fault injected at fs command k (every k) or stop() at task-handle notification j (every j); "
            "non-trivial = the deviation actually fired (fault raised inside rope / stop observed) and at least one "
            "sub-change had already been applied or remained to be applied; distinct by (composite, phase, deviation)")
    assumptions = ["fault model: a failing file-system command raises OSError and has no effect",
                   "one deviation (fault or stop) per execution; rollback itself runs fault-free",
                   "stop() during the very last notification (sent after the last boundary has been passed) arrives too late: the change must then be complete and no error raised; a stop at any earlier notification must be reported",
                   "snapshots compare path set, kinds and file bytes below the project root"]
    chunksize = 8

    def bound_text(self, tier):
        return "composite length <=3 full alphabet (26 ops) + nested variants" if tier == "quick" else \
            "length <=3 full alphabet + nested, length 4 over 12-op sub-alphabet"

    def cases(self, tier):
        out = []
        seen = set()

        def add(ops):
            k = repr(ops)
            if k not in seen and enabled(ops) is not None:
                seen.add(k)
                out.append({"ops": ops})
        for n in (1, 2, 3):
            for seq in itertools.product(OPS, repeat=n):
                ops = [tuple(o) for o in seq]
                if enabled(ops) is None:
                    continue
                add(ops)
                if n == 3:
                    add([("SET", ops[:2]), ops[2]])
                    add([ops[0], ("SET", ops[1:])])
                if n == 2:
                    add([("SET", ops)])
        if tier == "thorough":
            for seq in itertools.product(OPS_SMALL, repeat=4):
                add([tuple(o) for o in seq])
        for c in list(out):
            if len(list(flat(c["ops"]))) <= 2 and not any(o[0] == "SET" for o in c["ops"]):
                out.append({"ops": c["ops"], "tight": True})
        out.append({"refactoring": "rename_module"})
        out.append({"refactoring": "module_to_package"})
        out.append({"refactoring": "move_module"})
        return out

    def setup_worker(self):
        self.scratch = Scratch("c10")

    # -- one execution -------------------------------------------------------------
    def _env(self, case):
        if "ops" in case:
            return Env(self.scratch, case["ops"], case.get("tight", False))
        return RefEnv(self.scratch, case["refactoring"])

    def run(self, case):
        res = {"n": 0, "nt": [], "out": {}, "mech": {}, "fails": [], "refused": 0, "passfeat": []}
        ops = case.get("ops")
        kinds = [o[0] for o in flat(ops)] if ops else [case["refactoring"]]
        flat_kinds = kinds if ops else []
        base_feats = sorted({"has:" + k for k in kinds} | ({"nested"} if ops and any(o[0] == "SET" for o in ops) else set()) | ({"history:full"} if case.get("tight") else set()))

        def out(o):
            res["out"][o] = res["out"].get(o, 0) + 1

        def fail(kind, feats, detail):
            res["fails"].append({"kind": kind, "features": sorted(set(base_feats + feats)),
                                 "detail": dict(detail, case=op_str(ops) if ops else case),
                                 "size": len(kinds)})

        # ---- fault-free reference run: counts deviation points, records T0/T1
        env = self._env(case)
        try:
            T0 = snap(env.root)
            th = Stopper(0)
            env.fs.arm(0)
            hist0 = env.hist()
            try:
                env.p.do(env.cs, task_handle=th.th)
            except Exception as e:
                # the composite fails without any injected deviation (a sub-change the file system refuses):
                # that is a failure part-way too, and must leave no trace
                out("composite-fails-by-itself:" + type(e).__name__)
                res["n"] += 1
                if env.fs.n > 1:
                    res["nt"].append(h8([op_str(ops) if ops else case, "self-failure"]))
                sf = ["phase:do", "dev:none-composite-fails-by-itself"]
                refused = [i for i, k in enumerate(flat_kinds) if k in ("MVX", "CFX", "CDX")]
                if ops and refused:
                    sf += ["eff:" + k for k in flat_kinds[:refused[0]]]     # sub-changes applied before the refused one
                if snap(env.root) != T0:
                    fail("tree-differs", sf, {"expected": show(T0), "got": show(snap(env.root)), "exception": repr(e)})
                elif env.hist() != hist0:
                    fail("history-differs", sf, {"exception": repr(e)})
                return res
            K_do, J_do, log_do = env.fs.n, th.count, list(env.fs.log)
            T1 = snap(env.root)
            th = Stopper(0)
            env.fs.arm(0)
            undo_ok = True
            try:
                env.p.history.undo(task_handle=th.th)
            except Exception as e:
                undo_ok = False
                undo_exc = e
            K_undo, J_undo, log_undo = env.fs.n, th.count, list(env.fs.log)
            if undo_ok:
                if snap(env.root) != T0:
                    fail("undo-not-inverse", ["phase:plain-undo"], {"T0": show(T0), "got": show(snap(env.root))})
                th = Stopper(0)
                env.fs.arm(0)
                try:
                    env.p.history.redo(task_handle=th.th)
                    K_redo, J_redo = env.fs.n, th.count
                except Exception as e:
                    # a fault-free redo that fails is C11's business; no redo deviations here
                    out("faultfree-redo-raises:" + type(e).__name__)
                    K_redo = J_redo = 0
            else:
                # refusing to undo must itself be all-or-nothing
                if snap(env.root) != T1:
                    fail("tree-differs", ["phase:undo", "dev:undo-unsupported"],
                         {"expected": show(T1), "got": show(snap(env.root)), "exception": repr(undo_exc)})
                elif not isinstance(undo_exc, NotImplementedError):
                    fail("undo-raises:" + type(undo_exc).__name__, ["phase:undo", "dev:none"], {"exception": repr(undo_exc)})
                K_redo = J_redo = 0
                # deviations during an undo that is refused anyway would hit its rollback: not explored
                K_undo = J_undo = 0
            res["n"] += 1
        finally:
            env.close()

        def execution(phase, dev, idx, ksteps):
            """phase in do/undo/redo; dev in fault/stop."""
            env = self._env(case)
            try:
                p = env.p
                if phase in ("undo", "redo"):
                    p.do(env.cs)
                if phase == "redo":
                    p.history.undo()
                previewed = phase == "pdo"
                if previewed:
                    # the change is previewed (as every front end does) before it is performed
                    phase = "do"
                    try:
                        env.cs.get_description()
                    except Exception as e:
                        out("preview-raises:" + type(e).__name__)
                        return
                before = snap(env.root)
                hist = env.hist()
                stopper = Stopper(idx if dev == "stop" else 0)
                env.fs.arm(idx if dev == "fault" else 0)
                call = {"do": lambda: p.do(env.cs, task_handle=stopper.th),
                        "undo": lambda: p.history.undo(task_handle=stopper.th),
                        "redo": lambda: p.history.redo(task_handle=stopper.th)}[phase]
                exc = None
                try:
                    call()
                except Exception as e:
                    exc = e
                fired = env.fs.fired if dev == "fault" else stopper.th.is_stopped()
                after = snap(env.root)
                applied = env.fs.n - (1 if dev == "fault" else 0)
                feats = ["phase:" + phase, "dev:" + dev] + (["previewed"] if previewed else [])
                order = flat_kinds if phase != "undo" else flat_kinds[::-1]
                neff = (idx - 1) if dev == "fault" else idx // 2
                if ops:
                    feats += ["eff:" + k for k in order[:neff]]
                    if neff < len(order):
                        feats.append("at:" + order[neff])
                if dev == "fault":
                    feats.append("fault-on:" + env.fs.log[-1][0])
                    feats.append("fault-first" if idx == 1 else ("fault-last" if idx == ksteps else "fault-middle"))
                else:
                    feats.append("stop-last" if idx == ksteps else ("stop-first" if idx == 1 else "stop-middle"))
                    feats.append("stop-in:" + ("jobset-created" if idx == 1 else ("started" if idx % 2 == 0 else "finished")))
                detail = {"phase": phase, "deviation": dev, "index": idx, "of": ksteps,
                          "exception": repr(exc), "fs_log": [list(map(str, x)) for x in env.fs.log]}
                res["n"] += 1
                key = h8([case, phase, dev, idx, previewed])
                if fired and (applied > 0 or idx < ksteps):
                    res["nt"].append(key)
                res["mech"]["%s-%s" % (phase, dev)] = res["mech"].get("%s-%s" % (phase, dev), 0) + 1
                if exc is None:
                    # deviation arrived too late (stop at the last boundary): must be the complete change
                    complete = {"do": T1, "undo": T0, "redo": T1}[phase]
                    if dev == "fault":
                        fail("fault-swallowed", feats, detail)
                    elif fired and idx < ksteps:
                        # only the very last notification (sent after the last boundary was passed) can be too late
                        fail("stop-not-reported", feats, dict(detail, got=show(after)))
                    elif after != complete:
                        fail("partial-without-error", feats, dict(detail, expected=show(complete), got=show(after)))
                    else:
                        out("%s-%s:completed" % (phase, dev))
                        if self.triage:
                            res["passfeat"].append(sorted(set(base_feats + feats)))
                    return
                out("%s-%s:%s" % (phase, dev, type(exc).__name__))
                bad = False
                if after != before:
                    bad = True
                    lost = sorted(set(before) - set(after))
                    stray = sorted(set(after) - set(before))
                    changed = sorted(k for k in before if k in after and before[k] != after[k])
                    fail("tree-differs", feats, dict(detail, lost=lost, stray=stray, changed=changed,
                                                     expected=show(before), got=show(after)))
                if env.hist() != hist:
                    bad = True
                    fail("history-differs", feats, dict(detail, before=str(hist), after=str(env.hist())))
                if isinstance(exc, (AttributeError, TypeError, NameError, KeyError, IndexError)):
                    bad = True
                    fail("internal:" + type(exc).__name__, feats, detail)
                if not bad:
                    # retry fault-free: behaves as if nothing had happened
                    env.fs.arm(0)
                    try:
                        {"do": lambda: p.do(env.cs), "undo": p.history.undo, "redo": p.history.redo}[phase]()
                        got = snap(env.root)
                        want = {"do": T1, "undo": T0, "redo": T1}[phase]
                        if got != want:
                            bad = True
                            fail("retry-differs", feats, dict(detail, expected=show(want), got=show(got)))
                    except NotImplementedError:
                        pass
                    except Exception as e2:
                        bad = True
                        fail("retry-raises:" + type(e2).__name__, feats, dict(detail, retry=repr(e2)))
                if not bad and self.triage:
                    res["passfeat"].append(sorted(set(base_feats + feats)))
            finally:
                env.close()

        for k in range(1, K_do + 1):
            execution("do", "fault", k, K_do)
        for j in range(1, J_do + 1):
            execution("do", "stop", j, J_do)
        for k in range(1, K_do + 1):
            execution("pdo", "fault", k, K_do)
        for j in range(2, J_do, 2):
            execution("pdo", "stop", j, J_do)
        for k in range(1, K_undo + 1):
            execution("undo", "fault", k, K_undo)
        for j in range(1, J_undo + 1):
            execution("undo", "stop", j, J_undo)
        for k in range(1, K_redo + 1):
            execution("redo", "fault", k, K_redo)
        for j in range(1, J_redo + 1):
            execution("redo", "stop", j, J_redo)
        res["sample"] = {"composite": op_str(ops) if ops else case, "fault_points_do": K_do, "stop_points_do": J_do,
                         "fault_points_undo": K_undo, "stop_points_undo": J_undo}
        return res

    @property
    def triage(self):
        import os
        return os.environ.get("MC_TRIAGE") == "1"


class RefEnv(Env):
    """Composite produced by a real refactoring (module rename / module->package / move module)."""
    TREE = {"m.py": b"def f():\n    return 1\n", "u.py": b"import m\nfrom m import f\nprint(m.f(), f())\n",
            "pk": DIR, "pk/__init__.py": b"", "pk/w.py": b"import m\nx = m.f()\n"}

    def __init__(self, scratch, kind):
        from rope.refactor.rename import Rename
        from rope.refactor.topackage import ModuleToPackage
        from rope.refactor.move import create_move
        self.scratch = scratch
        self.root = scratch.new(self.TREE)
        self.fs = FaultFS()
        self.p = Project(self.root, fscommands=self.fs, ropefolder=None)
        p = self.p
        c1 = change.ChangeSet("prep1")
        c1.add_change(change.CreateFile(p.root, "z.py"))
        c2 = change.ChangeSet("prep2")
        c2.add_change(change.CreateFile(p.root, "y.py"))
        p.do(c1)
        p.do(c2)
        p.history.undo()
        m = p.get_file("m.py")
        if kind == "rename_module":
            self.cs = Rename(p, m).get_changes("mm")
        elif kind == "module_to_package":
            self.cs = ModuleToPackage(p, m).get_changes()
        else:
            self.cs = create_move(p, m).get_changes(p.get_folder("pk"))


CHECK = C10()
