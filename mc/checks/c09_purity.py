"""C09 - computing changes is pure; performing them touches only what was announced.

Space: refactoring kinds (21 request builders) x projects (plain two-module; with a sibling
out-of-project folder on python_path whose module is imported and whose names are used; with
ignored resources given by a plain name and by a `//` wildcard pattern and imported by a
normal module; with a syntactically broken module) x EVERY identifier offset of every
non-ignored module x resources= {None, [that file], [another file]}.
Oracle: recursive snapshots (path, kind, bytes, mtime) of the project root and of the sibling
folder before get_changes, after get_changes, after do."""
import difflib
import os

from rope.base import exceptions, libutils
from rope.base.project import Project
from rope.refactor import change_signature, encapsulate_field, extract, inline, introduce_factory, introduce_parameter, localtofield, \
    method_object, move, multiproject, rename, restructure, topackage, usefunction
from rope.refactor.importutils import ImportOrganizer

from ..core import Check, h8
from ..fsutil import DIR, Scratch, materialise, snap
from ..progx import name_tokens

XA = ("import os\n\n\ndef f(p, q=1):\n    t = p + q\n    return t * 2\n\n\nclass C:\n    field = 3\n\n    def m(self, z):\n        loc = z + self.field\n        return loc\n\n\n"
      "v = f(1)\nw = len(str(v)) + C().m(2)\nsq = [i * i for i in range(3)]\ndc = {k: k + 1 for k in sq}\ng = sum(e for e in sq if e)\n"
      "\n\nclass Part:\n    size = 1\n\n\nclass Holder:\n    def __init__(self):\n        self.part = Part()\n\n    def work(self, n):\n        return n + self.part.size\n")
XB = "import xa\nfrom xa import f, C\n\nr = xa.f(2, q=3) + f(4)\nc = C()\nc.field = 9\nprint(r, c.field, c.m(1), xa.v)\n"

PROJECTS = {
    "plain": {"files": {"xa.py": XA, "xb.py": XB}, "prefs": {}, "sibling": {}},
    "external": {"files": {"xa.py": "import xlib\nfrom xlib import helper, K\n\n\ndef f(p):\n    return helper(p) + xlib.LV + K().attr\n\n\nv = f(1)\n"
                                    "\n\nclass Holder:\n    def __init__(self):\n        self.part = K()\n\n    def work(self, n):\n        return n + self.part.attr\n",
                           "xb.py": "import xa\nimport xlib\nprint(xa.f(2), xlib.helper(3), xa.v)\n"},
                 "prefs": {"python_path": ["../xext"]},
                 "sibling": {"xlib.py": "LV = 5\n\n\ndef helper(x):\n    return x + LV\n\n\nclass K:\n    attr = 1\n"}},
    "ignored": {"files": {"xa.py": "import xold.legacy\nfrom xold.legacy import old_fn\nfrom xgen.a_pb2 import msg\n\n\ndef f(p):\n    return old_fn(p) + xold.legacy.old_fn(1) + msg\n\n\nshared = f(1)\n"
                                   "\n\nclass Holder:\n    def __init__(self):\n        self.part = xold.legacy.OldPart()\n\n    def work(self, n):\n        return n + self.part.size\n",
                          "xold": DIR, "xold/__init__.py": "", "xold/legacy.py": "def old_fn(x):\n    return x\n\n\nclass OldPart:\n    size = 2\n\n\nimport xa\nuse = xa.shared\n",
                          "xgen": DIR, "xgen/__init__.py": "", "xgen/a_pb2.py": "import xa\nmsg = 1\nref = xa.shared\n",
                          "xgen/sub": DIR, "xgen/sub/__init__.py": "", "xgen/sub/b_pb2.py": "import xa\nmsg2 = xa.shared\n",
                          "xb.py": "import xa\nprint(xa.shared, xa.f(2))\n"},
                "prefs": {"ignored_resources": ["xold", "xgen//*_pb2.py", ".ropeproject"]}, "sibling": {}},
    "broken": {"files": {"xa.py": XA, "xb.py": XB, "xbroken.py": "import xa\ndef oops(:\n    return xa.f(1)\n"}, "prefs": {}, "sibling": {}},
    # a symbolic link inside the project whose target lies in a sibling directory named like the project root plus a suffix
    "symlinked": {"files": {"xa.py": XA, "xb.py": XB}, "prefs": {}, "sibling_name": "proj_shared",
                  "sibling": {"common.py": "import xa\nfrom xa import f, C\n\nz = xa.f(3) + f(4) + C().m(1) + xa.v\n"}, "links": {"xlink.py": "common.py"}},
}
for _spec in PROJECTS.values():
    _spec["files"]["xdest"] = DIR
    _spec["files"]["xdest/__init__.py"] = ""
IGNORED_PREFIXES = {"ignored": ["xold/", "xold", "xgen/a_pb2.py", "xgen/sub/b_pb2.py"]}


def move_method(p, r, o, e, res):
    from rope.base import exceptions
    mover = move.create_move(p, r, o)
    if not isinstance(mover, move.MoveMethod):
        raise exceptions.RefactoringError("not a method")
    return mover.get_changes("part", "zz_moved", resources=res)


def kinds():
    """name -> builder(project, resource, offset, end, resources) -> changes"""
    def at(cls, *a, **k):
        return lambda p, r, o, e, res: cls(p, r, o).get_changes(*a, **k)
    K = {
        "rename": lambda p, r, o, e, res: rename.Rename(p, r, o).get_changes("zz_new", resources=res),
        "rename-in-hierarchy-docs": lambda p, r, o, e, res: rename.Rename(p, r, o).get_changes("zz_new", in_hierarchy=True, docs=True, resources=res),
        "extract-variable": lambda p, r, o, e, res: extract.ExtractVariable(p, r, o, e).get_changes("zz_var"),
        "extract-method": lambda p, r, o, e, res: extract.ExtractMethod(p, r, o, e).get_changes("zz_meth"),
        "inline": lambda p, r, o, e, res: inline.create_inline(p, r, o).get_changes(resources=res) if res is not None else inline.create_inline(p, r, o).get_changes(),
        "move": lambda p, r, o, e, res: move.create_move(p, r, o).get_changes(p.get_file("xb.py"), resources=res),
        "move-to-folder": lambda p, r, o, e, res: move.create_move(p, r, o).get_changes(p.get_folder("xdest"), resources=res),
        "change-signature": lambda p, r, o, e, res: change_signature.ChangeSignature(p, r, o).get_changes([change_signature.ArgumentNormalizer()], resources=res),
        "add-parameter": lambda p, r, o, e, res: change_signature.ChangeSignature(p, r, o).get_changes([change_signature.ArgumentAdder(0, "zz", default="0")], resources=res),
        "introduce-parameter": lambda p, r, o, e, res: introduce_parameter.IntroduceParameter(p, r, o).get_changes("zz_par"),
        "introduce-factory": lambda p, r, o, e, res: introduce_factory.IntroduceFactory(p, r, o).get_changes("create", resources=res),
        "encapsulate-field": lambda p, r, o, e, res: encapsulate_field.EncapsulateField(p, r, o).get_changes(resources=res),
        "local-to-field": lambda p, r, o, e, res: localtofield.LocalToField(p, r, o).get_changes(),
        "method-object": lambda p, r, o, e, res: method_object.MethodObject(p, r, o).get_changes(classname="ZzCls"),
        "use-function": lambda p, r, o, e, res: usefunction.UseFunction(p, r, o).get_changes(resources=res),
        "move-method": move_method,
        "multiproject-rename": lambda p, r, o, e, res: multiproject.MultiProjectRefactoring(rename.Rename, [])(p, r, o).get_all_changes("zz_new"),
    }
    return K


MODULE_KINDS = {
    "module-to-package": lambda p, r: topackage.ModuleToPackage(p, r).get_changes(),
    "rename-module": lambda p, r: rename.Rename(p, r).get_changes("zz_mod"),
    "organize-imports": lambda p, r: ImportOrganizer(p).organize_imports(r),
    "froms-to-imports": lambda p, r: ImportOrganizer(p).froms_to_imports(r),
    "restructure": lambda p, r: restructure.Restructure(p, "${x} + ${y}", "${y} + ${x}").get_changes(),
}


def prelude_move_into_ignored(p):
    """warm the project's file list, then move xb.py into the ignored package xold through rope"""
    p.get_files()
    p.get_python_files()
    p.do(move.create_move(p, p.get_file("xb.py")).get_changes(p.get_folder("xold")))


def rename_f_in_xa(p, r):
    src = p.get_file("xa.py").read()
    return rename.Rename(p, p.get_file("xa.py"), src.index("def f") + 4).get_changes("zz_new")


MODULE_KINDS["rename-after-a-module-moved-into-an-ignored-folder"] = rename_f_in_xa
PRELUDES = {"rename-after-a-module-moved-into-an-ignored-folder": prelude_move_into_ignored}


def full_snap(root, sibling):
    return (snap(root, mtime=True), snap(sibling, mtime=True) if os.path.isdir(sibling) else {})


class C09(Check):
    pid = "C09"
    level = "exploration"
    rule = ("cases = (project in {plain, symbolic link to a file in a sibling directory, external sibling folder on python_path, ignored resources (plain name and `//` pattern) "
            "imported by a normal module, module with a syntax error}, module, refactoring kind in 16 offset-based + 5 module-based "
            "kinds, identifier token offset (every token of every non-ignored module), resources in {None, [this file], [other file]}); "
            "evaluations = one get_changes (+ do when it succeeds) per case with full snapshots of the project root and the sibling "
            "folder before/after; non-trivial = requests that produced a change set which was then performed; distinct by "
            "(project, kind, path, offset, resources)")
    assumptions = ["snapshots compare path set, kinds, bytes and mtimes of everything below the project root and the sibling folder",
                   "a refusal is any rope.base.exceptions.RopeError; anything else is an internal error"]
    chunksize = 8

    def bound_text(self, tier):
        return "4 projects x every identifier token x 15+5 refactoring kinds x resources variants"

    def cases(self, tier):
        out = []
        for pname, spec in PROJECTS.items():
            for path, src in spec["files"].items():
                if src == DIR or not path.endswith(".py"):
                    continue
                if any(path == ip or path.startswith(ip) for ip in IGNORED_PREFIXES.get(pname, [])):
                    continue
                if path == "xbroken.py":
                    continue
                toks = name_tokens(src)
                for kind in kinds():
                    for (s, e, n) in toks:
                        for resv in (("none", "self", "other") if kind in ("rename", "inline", "change-signature", "encapsulate-field", "move") else ("none",)):
                            out.append({"project": pname, "path": path, "kind": kind, "offset": s, "end": e, "res": resv})
                for kind in MODULE_KINDS:
                    out.append({"project": pname, "path": path, "kind": kind, "offset": None, "end": None, "res": "none"})
        return out

    def setup_worker(self):
        self.scratch = Scratch("c09")
        self.kinds = kinds()

    def run(self, case):
        res = {"n": 1, "nt": [], "out": {}, "mech": {}, "fails": [], "refused": 0, "passfeat": []}
        spec = PROJECTS[case["project"]]
        base = self.scratch.new()
        root = os.path.join(base, "proj")
        sibling = os.path.join(base, spec.get("sibling_name", "xext"))
        os.mkdir(root)
        materialise(root, {p: (s if s == DIR else s.encode()) for p, s in spec["files"].items()})
        if spec["sibling"]:
            os.mkdir(sibling)
            materialise(sibling, {p: s.encode() for p, s in spec["sibling"].items()})
        for d, ds, fs in os.walk(base):
            for n in fs:
                os.utime(os.path.join(d, n), (1_000_000_000, 1_000_000_000))
        for lname, target in spec.get("links", {}).items():
            os.symlink(os.path.join(sibling, target), os.path.join(root, lname))
        prefs = dict(spec["prefs"])
        if "python_path" in prefs:
            prefs["python_path"] = [sibling]
        project = Project(root, ropefolder=None, **prefs)
        feats = ["project:" + case["project"], "kind:" + case["kind"], "resources:" + case["res"], "module:" + case["path"]]
        name = None
        if case["offset"] is not None:
            src = spec["files"][case["path"]]
            name = src[case["offset"]:case["end"]]
            feats.append("token:" + name)
        detail = {"project": case["project"], "path": case["path"], "kind": case["kind"], "offset": case["offset"], "token": name, "resources": case["res"]}

        def fail(kind, extra, ef=()):
            res["fails"].append({"kind": kind, "features": sorted(set(feats + list(ef))), "size": case["offset"] or 0, "detail": dict(detail, **extra), "case": case})
        try:
            r = project.get_file(case["path"])
            resv = {"none": None, "self": [r], "other": [project.get_file("xb.py" if case["path"] != "xb.py" else "xa.py")]}[case["res"]]
            if case["kind"] in PRELUDES:
                if case["project"] != "ignored" or case["path"] != "xa.py":
                    res["out"]["not-applicable"] = 1
                    return res
                PRELUDES[case["kind"]](project)
            before = full_snap(root, sibling)
            changes = None
            try:
                if case["offset"] is None:
                    changes = MODULE_KINDS[case["kind"]](project, r)
                else:
                    changes = self.kinds[case["kind"]](project, r, case["offset"], case["end"], resv)
            except exceptions.RopeError as e:
                res["refused"] = 1
                res["out"]["refused:" + type(e).__name__] = 1
                if full_snap(root, sibling) != before:
                    fail("refusal-modified-disk", {"exception": repr(e)[:200]})
                return res
            except RecursionError:
                fail("internal:RecursionError", {})
                return res
            except Exception as e:
                ef = ["exception:" + type(e).__name__]
                fail("internal:" + type(e).__name__, {"exception": repr(e)[:300]}, ef)
                if full_snap(root, sibling) != before:
                    fail("internal-error-modified-disk", {})
                return res
            if full_snap(root, sibling) != before:
                fail("get-changes-modified-disk", {})
                return res
            res["mech"][case["kind"]] = 1
            if changes is None:
                res["out"]["no-changes"] = 1
                return res
            if isinstance(changes, list):      # multiproject: [(project, changes)]
                changes = changes[0][1]
            announced = {x.path for x in changes.get_changed_resources()}
            description = changes.get_description()
            try:
                project.do(changes)
            except exceptions.RopeError as e:
                res["out"]["do-refused:" + type(e).__name__] = 1
                return res
            except Exception as e:
                fail("internal-in-do:" + type(e).__name__, {"exception": repr(e)[:300]})
                return res
            after = full_snap(root, sibling)
            res["nt"].append(h8([case["project"], case["kind"], case["path"], case["offset"], case["res"]]))
            if after[1] != before[1]:
                fail("out-of-project-file-modified", {"changed": sorted(k for k in set(after[1]) | set(before[1]) if after[1].get(k) != before[1].get(k))})
            b0, a0 = before[0], after[0]
            changed = sorted(k for k in set(a0) | set(b0) if (a0.get(k) if a0.get(k) == DIR else (a0.get(k) or (None,))[0]) != (b0.get(k) if b0.get(k) == DIR else (b0.get(k) or (None,))[0]))
            touched = sorted(k for k in set(a0) | set(b0) if a0.get(k) != b0.get(k))
            unannounced = [k for k in changed if k not in announced and not any(k.startswith(a + "/") for a in announced)]
            if unannounced:
                fail("unannounced-change", {"changed": changed, "announced": sorted(announced)})
            ign = []
            for k in touched:
                if not any(k == ip or k.startswith(ip) for ip in IGNORED_PREFIXES.get(case["project"], [])):
                    continue
                if k in b0 and k not in a0 and b0[k] != DIR:
                    # carried along by the announced move of a (non-ignored) folder that contains it: same bytes, new place
                    moved = [k2 for k2 in a0 if k2 not in b0 and a0[k2] != DIR and a0[k2][0] == b0[k][0] and os.path.basename(k2) == os.path.basename(k)]
                    if moved and any(k.startswith(a + "/") for a in announced):
                        continue
                if k in b0 and b0[k] == DIR and k not in a0 and any(k.startswith(a + "/") or k == a for a in announced):
                    continue
                ign.append(k)
            if ign:
                fail("ignored-resource-modified", {"changed": ign})
            if case["res"] != "none" and case["kind"] in ("rename", "change-signature", "encapsulate-field", "inline"):
                allowed = {x.path for x in resv}
                extra = [k for k in changed if k not in allowed and k.endswith(".py") and k in b0 and k in a0]
                if extra:
                    fail("resources-restriction-ignored", {"changed": changed, "allowed": sorted(allowed)})
            # description matches what was written
            for k in changed:
                if k in b0 and k in a0 and b0[k] != DIR and a0[k] != DIR:
                    old = b0[k][0].decode().splitlines()
                    new = a0[k][0].decode().splitlines()
                    if k not in description:
                        fail("description-omits-file", {"file": k, "description": description[:600]})
                        break
                    for line in difflib.unified_diff(old, new, lineterm="", n=0):
                        if line.startswith(("+++", "---", "@@")):
                            continue
                        if line[1:].strip() and line[1:] not in description:
                            fail("description-omits-line", {"file": k, "line": line, "description": description[:800]})
                            break
            res["out"]["performed"] = 1
            res["sample"] = detail
        finally:
            project.close()
            self.scratch.drop(base)
        return res


CHECK = C09()
