"""C04 - inline function / variable / parameter preserves behaviour or is refused.

Space: definition shapes (0-3 parameters with defaults x 5 body shapes) x every list of 1-2
(thorough: 3) call sites, each site = (argument passing shape, argument form, syntactic
context), hosted in the defining module, inside a host function that uses the callee's local
name, or in another module through two import styles, x query point (definition / each call
site) x remove / only_current.  Plus InlineVariable and InlineParameter spaces.
Oracle: CPython runs every module before and after."""
import itertools
import os

from rope.refactor import inline

from ..core import Check, h8
from ..progx import Bench, nth_offset
from ..runner import compiles, run_project

PARAMS = [[], ["a"], ["a", "b=1"], ["a", "b=1", "c=2"]]


def body_variants(names):
    expr = " + ".join(["100"] + ["%s * %d" % (n, 10 ** i) for i, n in enumerate(names)]) if names else "100"
    return {
        "ret": "    return %s\n" % expr,
        "local": "    t = %s\n    return t + 1\n" % expr,
        "print": "    print(%s)\n" % expr,
        "two-stmts": "    t = %s\n    u = t * 2\n    return u - t\n" % expr,
        "early": "    if %s > 150:\n        return 1\n    return 2\n" % expr,
    }


def call_shapes(params):
    """All valid ways to pass arguments: (n positional, keyword order of the rest supplied, omitted)."""
    names = [p.split("=")[0] for p in params]
    nreq = sum(1 for p in params if "=" not in p)
    out = []
    for supplied in range(nreq, len(names) + 1):
        for npos in range(0, supplied + 1):
            kws = names[npos:supplied]
            out.append((npos, tuple(kws)))
            if len(kws) > 1:
                out.append((npos, tuple(reversed(kws))))
    # de-duplicate
    seen, res = set(), []
    for s in out:
        if s not in seen:
            seen.add(s)
            res.append(s)
    return res


ARGFORMS = ["const", "name", "expr", "same"]
CONTEXTS = ["stmt", "assign", "inexpr", "hostfn", "cleanfn", "contline"]


def render_call(fname, params, shape, form, site_no):
    names = [p.split("=")[0] for p in params]
    npos, kws = shape

    def val(i):
        base = 3 + site_no * 3 + i
        if form == "const":
            return str(base)
        if form == "same":
            return str(5 + i)
        if form == "name":
            return "t" if i == 0 else "w"
        return "%d + %d" % (base, 1)
    args = [val(i) for i in range(npos)] + ["%s=%s" % (k, val(names.index(k))) for k in kws]
    return "%s(%s)" % (fname, ", ".join(args))


def render_site(call, ctx, returns, site_no):
    pre = "t = %d\nw = %d\n" % (7 + site_no, 9 + site_no)
    if ctx == "stmt":
        return pre + call + "\n"
    if ctx == "assign":
        return pre + "r%d = %s\nprint(r%d)\n" % (site_no, call, site_no)
    if ctx == "inexpr":
        return pre + "print(%s + 1)\n" % call
    if ctx == "contline":
        # the call stands on a continuation line that is indented differently from the first line of its statement
        return pre + "r%d = (1 +\n            %s)\nprint(r%d)\n" % (site_no, call, site_no)
    if ctx == "cleanfn":
        body = "def k%d():\n" % site_no
        if returns:
            body += "    r = %s\n    print(r)\n" % call
        else:
            body += "    %s\n" % call
        return body + "k%d()\n" % site_no
    if ctx == "hostfn":
        body = "def g%d():\n    t = %d\n    w = %d\n" % (site_no, 7 + site_no, 9 + site_no)
        if returns:
            body += "    r = %s\n    print(r, t)\n" % call
        else:
            body += "    %s\n    print(t)\n" % call
        return body + "g%d()\n" % site_no
    raise ValueError(ctx)


HOSTS = ["same", "import", "from"]


def make_project(params, bkey, sites, host):
    names = [p.split("=")[0] for p in params]
    body = body_variants(names)[bkey]
    returns = bkey != "print"
    xd = "def f(%s):\n%s\n\n" % (", ".join(params), body)
    fname = {"same": "f", "import": "xd.f", "from": "f"}[host]
    rendered = []
    for i, (shape, form, ctx) in enumerate(sites):
        if not returns and ctx in ("assign", "inexpr", "contline"):
            return None
        rendered.append(render_site(render_call(fname, params, shape, form, i), ctx, returns, i))
    if host == "same":
        return {"xd.py": xd + "".join(rendered)}, fname
    imp = "import xd\n\n" if host == "import" else "from xd import f\n\n"
    return {"xd.py": xd, "xu.py": imp + "".join(rendered)}, fname


class C04(Check):
    pid = "C04"
    level = "exploration"
    rule = ("cases = (signature in 4 shapes, body in 5 shapes, host in {defining module, other module via `import xd`, via "
            "`from xd import f`}, list of 1-2 (3) call sites each = passing shape (every positional/keyword/default mix) x "
            "argument form {constant, name equal to the callee's local, expression} x context {statement, assignment, inside "
            "expression, inside a host function that owns a variable named like the callee's local}); evaluations = one "
            "create_inline(...).get_changes request per (case, query point in {definition, each call site}, remove, only_current); "
            "plus InlineVariable (once-assigned variable read in 1-2 modules) and InlineParameter; each performed result is "
            "compiled and every module run before/after; non-trivial = performed requests; distinct by (project, offset, options)")
    assumptions = ["behaviour = stdout + exception type of importing every module of the project",
                   "arguments are side-effect free; parameters are not reassigned in the callee (documented limits of rope's inline are inside the space only through the `expr` argument form)"]
    chunksize = 4
    budget_quick = 450
    budget_thorough = 1200

    def bound_text(self, tier):
        return "1-2 call sites per definition" if tier == "quick" else "1-3 call sites (3 sites: constant/name forms only)"

    def cases(self, tier):
        out = []
        for pi, params in enumerate(PARAMS):
            shapes = call_shapes(params)
            for bkey in ("ret", "local", "print", "two-stmts", "early"):
                for host in HOSTS:
                    single = [(s, f, c) for s in range(len(shapes)) for f in ARGFORMS for c in CONTEXTS if c != "contline" or f in ("const", "name")]
                    for s1 in single:
                        out.append({"p": pi, "b": bkey, "host": host, "sites": [list(s1)]})
                    # two sites: second site restricted to stmt/assign contexts and const/name forms
                    if tier == "quick":
                        if pi == 3 and bkey not in ("ret", "local"):
                            continue
                        second = [(s, f, c) for s in range(len(shapes)) for f in ("const",) for c in ("assign", "hostfn")]
                        first = [(s, f, c) for s in range(len(shapes)) for f in ("const", "name") for c in ("assign",)]
                    else:
                        second = [(s, f, c) for s in range(len(shapes)) for f in ("const", "name") for c in ("assign", "hostfn")]
                        first = [(s, f, c) for s in range(len(shapes)) for f in ("const", "name") for c in ("assign", "stmt", "hostfn")]
                    for s1 in first:
                        for s2 in second:
                            out.append({"p": pi, "b": bkey, "host": host, "sites": [list(s1), list(s2)]})
                    # identical call text at two sites whose hosts differ in the names they own
                    for sh in range(len(shapes)):
                        for c1, c2 in (("cleanfn", "hostfn"), ("hostfn", "cleanfn"), ("cleanfn", "assign"), ("assign", "cleanfn")):
                            out.append({"p": pi, "b": bkey, "host": host, "sites": [[sh, "same", c1], [sh, "same", c2]]})
                    if tier == "thorough":
                        third = [(s, "const", "assign") for s in range(len(shapes))]
                        for s1 in first:
                            for s2 in second:
                                for s3 in third:
                                    if s1[2] == "assign" and s2[2] == "assign":
                                        out.append({"p": pi, "b": bkey, "host": host, "sites": [list(s1), list(s2), list(s3)]})
        for v in range(len(METHOD_CASES)):
            out.append({"meth": v})
        for v in range(len(IMPORT_CASES)):
            out.append({"imp": v})
        for v in range(len(MISC_CASES)):
            out.append({"misc": v})
        for v in range(len(VAR_CASES)):
            out.append({"var": v})
        for v in range(len(PARAM_CASES)):
            out.append({"param": v})
        return out

    def setup_worker(self):
        self.bench = Bench("c04")

    def run(self, case):
        if "meth" in case:
            return self.run_simple(case, METHOD_CASES[case["meth"]], "method")
        if "misc" in case:
            return self.run_simple(case, MISC_CASES[case["misc"]], "method")
        if "imp" in case:
            return self.run_simple(case, IMPORT_CASES[case["imp"]], "method")
        if "var" in case:
            return self.run_simple(case, VAR_CASES[case["var"]], "variable")
        if "param" in case:
            return self.run_simple(case, PARAM_CASES[case["param"]], "parameter")
        triage = os.environ.get("MC_TRIAGE") == "1"
        res = {"n": 0, "nt": [], "out": {}, "mech": {}, "fails": [], "refused": 0, "passfeat": []}
        params = PARAMS[case["p"]]
        shapes = call_shapes(params)
        sites = [(shapes[s], f, c) for s, f, c in case["sites"]]
        made = make_project(params, case["b"], sites, case["host"])
        if made is None:
            res["n"] = 1
            res["out"]["skipped-shape"] = 1
            return res
        files, fname = made
        if compiles(files):
            return {"harness": "generated project does not compile: %r" % (files,)}
        base = run_project(files)
        if any(v[1] for v in base.values()):
            res["n"] = 1
            res["out"]["base-raises"] = 1
            return res
        usemod = "xd.py" if case["host"] == "same" else "xu.py"
        # query points: definition, each call site
        points = [("def", "xd.py", files["xd.py"].index("def f(") + 4)]
        callname = fname
        for i in range(len(sites)):
            off = nth_offset(files[usemod], callname + "(", i + (1 if case["host"] == "same" else 0)) + len(callname) - 1
            points.append(("site%d" % i, usemod, off))
        feats0 = ["params:%d" % len(params), "body:" + case["b"], "host:" + case["host"], "nsites:%d" % len(sites)]
        for i, (shape, form, ctx) in enumerate(sites):
            names = [p.split("=")[0] for p in params]
            feats0 += ["site%d:form=%s" % (i, form), "site%d:ctx=%s" % (i, ctx), "site%d:npos=%d" % (i, shape[0]),
                       "site%d:nkw=%d" % (i, len(shape[1])), "site%d:omitted=%d" % (i, len(names) - shape[0] - len(shape[1]))]
            feats0 += ["any:form=" + form, "any:ctx=" + ctx]
            if len(shape[1]) > 1 and list(shape[1]) != [n for n in names if n in shape[1]]:
                feats0.append("any:kw-reordered")
            if len(names) - shape[0] - len(shape[1]) > 0:
                feats0.append("any:default-omitted")
        if case["b"] in ("local", "two-stmts") and any(f == "name" and (sh[0] + len(sh[1])) > 0 for sh, f, c in sites):
            feats0.append("capture:argument-named-like-callee-local")
        if len(sites) > 1:
            om = [len(params) - s[0][0] - len(s[0][1]) for s in sites]
            if om[0] != om[1]:
                feats0.append("sites-differ-in-omitted-defaults")
        for pname, pmod, off in points:
            for remove, only_current in ((True, False), (False, False), (False, True), (True, True)):
                if only_current and pname == "def":
                    continue
                key = [pname, remove, only_current]
                if "only" in case and case["only"] != key:
                    continue
                res["n"] += 1
                ctx = self.bench.open(files)
                try:
                    status, payload = ctx.refactor(
                        lambda p: inline.create_inline(p, p.get_file(pmod), off).get_changes(remove=remove, only_current=only_current))
                    new = ctx.tree()
                finally:
                    ctx.close()
                feats = sorted(set(feats0 + ["at:" + ("def" if pname == "def" else "site"), "remove=%s" % remove, "only_current=%s" % only_current]))
                detail = {"files": files, "query": pname, "offset": off, "remove": remove, "only_current": only_current}
                res["mech"]["inline-method"] = res["mech"].get("inline-method", 0) + 1

                def fail(k, extra):
                    res["fails"].append({"kind": k, "features": feats, "size": len(sites) * 10 + len(params),
                                         "detail": dict(detail, **extra), "case": dict(case, only=key)})
                if status == "refused":
                    res["refused"] += 1
                    res["out"]["refused"] = res["out"].get("refused", 0) + 1
                    continue
                if status != "done":
                    fail(status if status != "internal" else "internal:" + str(payload).split(":")[0], {"message": str(payload)})
                    continue
                if new == files:
                    res["out"]["no-op"] = res["out"].get("no-op", 0) + 1
                    continue
                res["nt"].append(h8([files, off, remove, only_current]))
                bad = compiles(new)
                if bad:
                    fail("syntax-error", {"result": new, "message": bad[1]})
                    continue
                got = run_project(new, sorted(base))
                if got != base:
                    fail("behaviour-differs", {"result": new, "before": base, "after": got})
                    continue
                if remove and not only_current and "def f(" in new.get("xd.py", ""):
                    fail("definition-not-removed", {"result": new})
                    continue
                if remove and not only_current and any("f(" in s.replace("def f(", "") and ("xd.f(" in s or "\nf(" in s or " f(" in s) for s in new.values()):
                    fail("call-left-behind", {"result": new})
                    continue
                res["out"]["preserved"] = res["out"].get("preserved", 0) + 1
                if triage:
                    res["passfeat"].append(feats)
        res["sample"] = {"files": files}
        return res

    def run_simple(self, case, spec, what):
        res = {"n": 0, "nt": [], "out": {}, "mech": {}, "fails": [], "refused": 0, "passfeat": []}
        files, needle, nth = spec["files"], spec["needle"], spec.get("nth", 0)
        base = run_project(files)
        mod = spec["module"]
        if needle == "@use":
            from ..progx import name_tokens
            off = [t for t in name_tokens(files[mod]) if t[2] == "v"][1][0]
        else:
            off = nth_offset(files[mod], needle, nth) + spec.get("delta", 0)
        variants = [dict(remove=True), dict(remove=False), dict(remove=True, only_current=True)] if what == "variable" else \
            [dict(remove=True), dict(remove=False), dict(remove=False, only_current=True)] if what == "method" else [dict()]
        for opts in variants:
            res["n"] += 1
            ctx = self.bench.open(files)
            try:
                status, payload = ctx.refactor(lambda p: inline.create_inline(p, p.get_file(mod), off).get_changes(**opts))
                new = ctx.tree()
            finally:
                ctx.close()
            feats = sorted(["inline:" + what, "shape:" + spec["name"]] + ["%s=%s" % kv for kv in opts.items()])
            if spec["name"].startswith("imports/"):
                _, dk, tk, st, pt = spec["name"].split("/")
                feats = sorted(["inline:function-with-dependencies", "dep:" + dk, tk, "client:" + st, "query:" + pt] + ["%s=%s" % kv for kv in opts.items()])
            res["mech"]["inline-" + what] = res["mech"].get("inline-" + what, 0) + 1
            detail = {"files": files, "offset": off, "options": opts}

            def fail(k, extra):
                res["fails"].append({"kind": k, "features": feats, "size": 1, "detail": dict(detail, **extra), "case": case})
            if status == "refused":
                res["refused"] += 1
                res["out"]["refused"] = res["out"].get("refused", 0) + 1
                if spec.get("must_perform"):
                    fail("unexpected-refusal", {"message": payload})
                continue
            if status != "done":
                fail(status if status != "internal" else "internal:" + str(payload).split(":")[0], {"message": str(payload)})
                continue
            res["nt"].append(h8([files, off, sorted(opts.items())]))
            bad = compiles(new)
            if bad:
                fail("syntax-error", {"result": new, "message": bad[1]})
                continue
            got = run_project(new, sorted(base))
            if got != base:
                fail("behaviour-differs", {"result": new, "before": base, "after": got})
                continue
            res["out"]["preserved"] = res["out"].get("preserved", 0) + 1
        return res


def _var_cases():
    out = []
    exprs = {"const": "41 + 1", "call": "len('abc')", "name": "base", "paren-needed": "1 + 2"}
    uses = {"plain": "print(v)", "twice": "print(v, v)", "in-expr": "print(v * 2)", "attr-like": "print(str(v).upper())", "in-fn": "def g():\n    return v\nprint(g())"}
    for ek, e in exprs.items():
        for uk, u in uses.items():
            src = "base = 5\nv = %s\n%s\n" % (e, u)
            out.append({"name": "%s/%s/same-module" % (ek, uk), "files": {"xd.py": src}, "module": "xd.py", "needle": "v =", "must_perform": False})
            out.append({"name": "%s/%s/at-use" % (ek, uk), "files": {"xd.py": src}, "module": "xd.py", "needle": "@use", "must_perform": False})
    # local variable in a function
    for ek, e in exprs.items():
        src = "base = 5\ndef h(q):\n    v = %s\n    return v + q\nprint(h(1))\n" % e
        out.append({"name": "%s/local" % ek, "files": {"xd.py": src}, "module": "xd.py", "needle": "v =", "must_perform": False})
    # global variable used from another module
    for style, use in (("import xd", "xd.v"), ("from xd import v", "v")):
        for ek, e in exprs.items():
            files = {"xd.py": "import math\nbase = 5\nv = %s\n" % (e if ek != "call" else "math.floor(2.5)"),
                     "xu.py": "%s\nprint(%s + 1)\n" % (style, use)}
            out.append({"name": "%s/other-module/%s" % (ek, style.split()[0]), "files": files, "module": "xd.py", "needle": "v =", "must_perform": False})
    return out


def _param_cases():
    out = []
    for calls in (["f(1)"], ["f(1, 2)"], ["f(1)", "f(3, b=4)"], ["f(a=1)"], ["f(1)", "f(2)", "f(5, 6)"]):
        src = "def f(a, b=10):\n    return a + b\n\n" + "".join("print(%s)\n" % c for c in calls)
        out.append({"name": "default-b/%d-calls" % len(calls), "files": {"xd.py": src}, "module": "xd.py", "needle": "b=10", "must_perform": False})
        files = {"xd.py": "def f(a, b=10):\n    return a + b\n", "xu.py": "import xd\n" + "".join("print(xd.%s)\n" % c for c in calls)}
        out.append({"name": "default-b/other-module/%d-calls" % len(calls), "files": files, "module": "xd.py", "needle": "b=10", "must_perform": False})
    return out


def _method_cases():
    out = []
    cls = ("class E:\n    def __init__(self, k):\n        self.k = k\n\n    def boost(self, a, b=1):\n        return self.k * 1000 + a * 10 + b\n\n"
           "    @staticmethod\n    def sm(a):\n        return a + 1\n\n    @classmethod\n    def cm(cls, a):\n        return cls.__name__ + str(a)\n\n\n"
           "class Car:\n    def __init__(self):\n        self.engine = E(2)\n        self.k = 7\n\n    def go(self):\n        return %s\n\n\n"
           "car = Car()\ne = E(3)\n")
    recvs = {"name": "e.boost(%s)", "attr-chain": "car.engine.boost(%s)", "ctor": "E(9).boost(%s)"}
    argss = {"pos": "4", "pos2": "4, 6", "kw": "4, b=6", "allkw": "a=4"}
    for rk, r in recvs.items():
        for ak, a in argss.items():
            call = r % a
            src = cls % "self.k" + "print(%s)\n" % call
            out.append({"name": "method/%s/%s" % (rk, ak), "files": {"xd.py": src}, "module": "xd.py", "needle": "boost(" + a, "delta": 0})
            out.append({"name": "method/%s/%s/at-def" % (rk, ak), "files": {"xd.py": src}, "module": "xd.py", "needle": "def boost", "delta": 4})
            files = {"xd.py": cls % "self.k", "xu.py": "from xd import car, e, E\nprint(%s)\n" % call}
            out.append({"name": "method/%s/%s/other-module" % (rk, ak), "files": files, "module": "xu.py", "needle": "boost(" + a, "delta": 0})
    for ak, a in argss.items():
        src = cls % ("self.engine.boost(%s)" % a) + "print(car.go())\n"
        out.append({"name": "method/self-attr/%s" % ak, "files": {"xd.py": src}, "module": "xd.py", "needle": "boost(" + a, "delta": 0})
    src = cls % "self.k" + "print(E.sm(4))\nprint(E.cm(5))\nprint(e.sm(6))\n"
    out.append({"name": "staticmethod", "files": {"xd.py": src}, "module": "xd.py", "needle": "sm(4", "delta": 0})
    out.append({"name": "classmethod", "files": {"xd.py": src}, "module": "xd.py", "needle": "cm(5", "delta": 0})
    return out


def _import_cases():
    """The inlined body depends on names of its own module; the call sits in another module whose import
    block may already contain similar-looking imports or clashing names."""
    out = []
    lib = {"xutil.py": "V = 'xutil.V'\n", "xutils.py": "V = 'xutils.V'\n", "xpk/__init__.py": "", "xpk/xsubm.py": "S = 'xpk.xsubm.S'\n"}
    deps = {"import": ("import xutil", "xutil.V"), "import-as": ("import xutil as xu", "xu.V"), "from": ("from xutil import V", "V"),
            "from-as": ("from xutil import V as W", "W"), "import-dotted": ("import xpk.xsubm", "xpk.xsubm.S"), "from-pkg": ("from xpk import xsubm", "xsubm.S"),
            "global-var": ("G = 'xd.G'", "G"), "helper": ("def helper():\n    return 'xd.helper'", "helper()"), "two": ("import xutil\nimport xutils", "xutil.V + xutils.V")}
    dests = {"none": "", "prefix-named-module": "import xutils\n", "same-import": "import xutil\n", "same-from": "from xutil import V\n",
             "other-alias": "import xutil as other\n", "prefix-from": "from xutils import V\n", "own-V": "V = 'xu.V'\n", "own-name-xutil": "xutil = 'xu.xutil'\n"}
    dest_use = {"none": "", "prefix-named-module": "print(xutils.V)\n", "same-import": "print(xutil.V)\n", "same-from": "print(V)\n",
                "other-alias": "print(other.V)\n", "prefix-from": "print(V)\n", "own-V": "print(V)\n", "own-name-xutil": "print(xutil)\n"}
    for dk, (dep, expr) in deps.items():
        xd = "%s\n\n\ndef f(a):\n    return a + %s\n" % (dep, expr)
        for tk, block in dests.items():
            for style, call in (("import xd", "xd.f('1')"), ("from xd import f", "f('1')")):
                xu = "%s\n%s\nprint(%s)\n%s" % (style, block, call, dest_use[tk])
                files = dict(lib)
                files.update({"xd.py": xd, "xu.py": xu})
                name = "imports/%s/dest-%s/%s" % (dk, tk, style.split()[0])
                out.append({"name": name + "/at-call", "files": files, "module": "xu.py", "needle": "f('1'", "delta": 0})
                out.append({"name": name + "/at-def", "files": files, "module": "xd.py", "needle": "def f", "delta": 4})
    return out


def _misc_cases():
    out = []
    # a function whose body has an import statement of its own, called in its own module and elsewhere
    for body in ("    import xutil\n    return a + xutil.V\n", "    from xutil import V\n    return a + V\n", "    import xutil as xu_\n    t = xu_.V\n    return a + t\n"):
        xd = "def f(a):\n" + body + "\n\nprint(f('1'))\n"
        files = {"xutil.py": "V = 'xutil.V'\n", "xd.py": xd, "xu.py": "import xd\nprint(xd.f('2'))\n"}
        tag = body.split("\n")[0].strip().replace(" ", "-")
        out.append({"name": "local-import/%s/at-def" % tag, "files": files, "module": "xd.py", "needle": "def f", "delta": 4})
        out.append({"name": "local-import/%s/at-own-call" % tag, "files": files, "module": "xd.py", "needle": "f('1'", "delta": 0})
        out.append({"name": "local-import/%s/at-other-call" % tag, "files": files, "module": "xu.py", "needle": "f('2'", "delta": 0})
    # positional-only parameters, with and without defaults
    for sig in ("v, k=3, /, o=1", "v, /, k=3, o=1", "v, k=3, /", "v, /"):
        nargs = sig.replace("/,", "").replace(", /", "").count(",") + 1
        calls = ["f(5)"] + (["f(5, 2)"] if nargs >= 2 else []) + (["f(5, 2, o=4)", "f(5, o=4)"] if "o=1" in sig else [])
        names = [x.split("=")[0].strip() for x in sig.split(",") if x.strip() != "/"]
        xd = "def f(%s):\n    return %s\n\n\n" % (sig, " * 10 + ".join(names)) + "".join("print(%s)\n" % c for c in calls)
        for ci, c in enumerate(calls):
            out.append({"name": "posonly/%s/call%d" % (sig.replace(" ", ""), ci), "files": {"xd.py": xd}, "module": "xd.py", "needle": c.replace(")", ""), "delta": 0})
        out.append({"name": "posonly/%s/at-def" % sig.replace(" ", ""), "files": {"xd.py": xd}, "module": "xd.py", "needle": "def f", "delta": 4})
    return out


MISC_CASES = _misc_cases()
IMPORT_CASES = _import_cases()
METHOD_CASES = _method_cases()
VAR_CASES = _var_cases()
PARAM_CASES = _param_cases()
CHECK = C04()
