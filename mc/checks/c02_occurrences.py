"""C02 - occurrence finding is exact: all and only references to the chosen binding.

Space: every program of the scoping schemas (mc/scopegen.py: closures, global/nonlocal,
defaults, class bodies, self attributes, comprehensions, lambdas, loop/with/except/walrus
targets, keyword arguments, strings/comments/f-strings with the same word; multi-module
layouts x import styles) x every binding class K of the reference binder x EVERY token of K
as the query point.  Oracle (two-sided): find_occurrences(query) restricted to statically
bound identifier tokens == K, nothing inside strings/comments, and the set of tokens whose
spelling Rename(query).get_changes(fresh) alters == K."""
import os

from rope.base import exceptions
from rope.contrib import findit
from rope.refactor.rename import Rename

from ..binder import ProjectBinding, check_against_symtable
from ..core import Check, h8
from ..progx import Bench, name_tokens
from ..runner import compiles, run_project
from ..scopegen import multi_module_projects, single_module_programs


def all_programs(tier):
    progs = []
    for name, env, src in single_module_programs():
        progs.append((name, env, {"xm.py": src}))
    progs += multi_module_projects()
    return progs


_CACHE = {}


def programs(tier):
    if tier not in _CACHE:
        _CACHE[tier] = all_programs(tier)
    return _CACHE[tier]


class C02(Check):
    pid = "C02"
    level = "exploration"
    rule = ("cases = programs of 5 single-module scoping schemas (full product of two-name menus per hole, CPython-valid and "
            "terminating) and multi-module projects (2 layouts x 5-7 import styles x local shadowing; pairs of clients with different "
            "styles); evaluations = one find_occurrences call and one Rename.get_changes per (program, binding class, token of that "
            "class as query point); reference classes come from the binder (validated against symtable per program); non-trivial = "
            "queries on classes with >= 2 tokens or on programs where another binding has the same spelling; distinct by "
            "(project, query offset)")
    assumptions = ["reference binder: language rules over ast + import transparency + statically known attributes/keywords; tokens it tags dynamic are neither required nor forbidden",
                   "a binder/symtable disagreement aborts the check (exit 2)"]
    chunksize = 2

    def bound_text(self, tier):
        return "all schema programs; every token of every class as query"

    def cases(self, tier):
        return [{"i": i} for i in range(len(programs(tier)))]

    def setup_worker(self):
        self.bench = Bench("c02")

    def run(self, case):
        triage = os.environ.get("MC_TRIAGE") == "1"
        res = {"n": 0, "nt": [], "out": {}, "mech": {}, "fails": [], "refused": 0, "passfeat": []}
        schema, env, files = programs("quick")[case["i"]]
        if compiles(files):
            res["n"] = 1
            res["out"]["invalid"] = 1
            return res
        base = run_project(files)
        if any(v[1] for v in base.values()):
            res["n"] = 1
            res["out"]["program-raises"] = 1
            return res
        for p, s in files.items():
            pr = check_against_symtable(s)
            if pr:
                return {"harness": "binder disagrees with symtable on %r: %r" % (s, pr[:2])}
        pb = ProjectBinding(files)
        classes = pb.classes()
        tokkey = {(p, s): k for p, toks in pb.tokens.items() for s, e, n, k in toks}
        tokend = {(p, s): e for p, toks in pb.tokens.items() for s, e, n, k in toks}
        spell = {}
        for p, toks in pb.tokens.items():
            for s, e, n, k in toks:
                spell.setdefault(n, set()).add(k if k is not None else ("none", p, s))
        feats0 = ["schema:" + schema] + ["%s=%s" % (k, v) for k, v in sorted(env.items()) if isinstance(v, (str, bool))]
        ctx = self.bench.open(files)
        try:
            project = ctx.project
            libs = [q for q in files if q.endswith("xm.py") and len(files) > 1]
            phases = [0, 1] if libs and ("only" not in case or case.get("phase") == 1) else [0]
            work = []
            for phase in phases:
                if phase == 1:
                    # second phase on the same long-lived project: the library modules are edited through rope (all
                    # definitions move down by two lines) while their importers stay untouched, then everything is asked again
                    from rope.base import change as _change
                    files = dict(files)
                    cs = _change.ChangeSet("edit libraries")
                    for q in libs:
                        files[q] = "# edited\n\n" + files[q]
                        cs.add_change(_change.ChangeContents(project.get_file(q), files[q]))
                    project.do(cs)
                    pb = ProjectBinding(files)
                    classes = pb.classes()
                    tokkey = {(p_, s_): k_ for p_, toks_ in pb.tokens.items() for s_, e_, n_, k_ in toks_}
                    spell = {}
                    for p_, toks_ in pb.tokens.items():
                        for s_, e_, n_, k_ in toks_:
                            spell.setdefault(n_, set()).add(k_ if k_ is not None else ("none", p_, s_))
                    feats0 = feats0 + ["phase:after-library-edit"]
                work.append((phase, files, pb, classes, tokkey, spell, feats0))
                if phase == 0 and len(phases) > 1:
                    if case.get("phase") == 1:
                        # replaying a second-phase failure: the first phase runs in full (to warm the project), unjudged
                        self._evaluate({k_: v_ for k_, v_ in case.items() if k_ != "only"},
                                       {"n": 0, "nt": [], "out": {}, "mech": {}, "fails": [], "refused": 0, "passfeat": []}, project, False, *work[-1])
                    else:
                        self._evaluate(case, res, project, triage, *work[-1])
            self._evaluate(case, res, project, triage, *work[-1])
        finally:
            ctx.close()
        res["sample"] = {"files": files, "classes": len(classes)}
        return res

    def _evaluate(self, case, res, project, triage, phase, files, pb, classes, tokkey, spell, feats0):
        if True:
            for key, locs in sorted(classes.items(), key=repr):
                name = key[-1] if key[0] == "lex" else key[1].split(".")[-1]
                kfeats = self.key_features(pb, key, locs, files)
                for (qp, qs, qe) in locs:
                    if "only" in case and case["only"] != [qp, qs]:
                        continue
                    res["n"] += 1
                    feats = sorted(set(feats0 + kfeats + ["query-role:" + self.role_at(pb, qp, qs), "query-name:" + name] +
                                       ["query:" + c for c in self.ctx_at(pb, qp, qs)] +
                                       (["has-fstring"] if any('f"' in s_ or "f'" in s_ for s_ in files.values()) else [])))
                    detail = {"files": files, "query": {"path": qp, "offset": qs, "name": name}, "binding": repr(key)}
                    if len(locs) > 1 or len(spell.get(name, ())) > 1:
                        res["nt"].append(h8([files, qp, qs]))

                    def fail(kind, extra, ef=()):
                        res["fails"].append({"kind": kind, "features": sorted(set(feats + list(ef))), "size": len(str(files)) // 50,
                                             "detail": dict(detail, **extra), "case": dict(case, only=[qp, qs], phase=phase)})
                    # ---- find_occurrences
                    try:
                        got = findit.find_occurrences(project, project.get_file(qp), qs)
                        gotset = {(l.resource.path, l.region[0], l.region[1]) for l in got if not getattr(l, "unsure", False)}
                    except exceptions.RopeError as e:
                        res["refused"] += 1
                        res["out"]["find-refused"] = res["out"].get("find-refused", 0) + 1
                        gotset = None
                    except Exception as e:
                        fail("internal:" + type(e).__name__, {"where": "find_occurrences", "exception": repr(e)})
                        gotset = None
                    if gotset is not None:
                        res["mech"]["find_occurrences"] = res["mech"].get("find_occurrences", 0) + 1
                        want = set(locs)
                        nontoken = sorted(l for l in gotset if (l[0], l[1]) not in tokkey)
                        static_got = {l for l in gotset if tokkey.get((l[0], l[1])) not in (None, "untracked") or l in want}
                        if nontoken:
                            fail("occurrence-inside-string-or-comment", {"locations": nontoken})
                        missing = sorted(want - gotset)
                        extra = sorted(l for l in static_got - want if (l[0], l[1]) in tokkey)
                        if missing or extra:
                            ef = []
                            for l in missing:
                                ef.append("missing-role:" + self.role_at(pb, l[0], l[1]))
                                ef += ["missing:" + c for c in self.ctx_at(pb, l[0], l[1])] or ["missing:plain-context"]
                            for l in extra:
                                ef.append("extra-role:" + self.role_at(pb, l[0], l[1]))
                                ef += ["extra:" + c for c in self.ctx_at(pb, l[0], l[1])] or ["extra:plain-context"]
                            fail("occurrences-differ", {"missing": missing, "extra": extra, "got": sorted(gotset), "want": sorted(want)}, ef)
                        else:
                            res["out"]["find-exact"] = res["out"].get("find-exact", 0) + 1
                    # ---- tokens a rename rewrites
                    try:
                        ch = Rename(project, project.get_file(qp), qs).get_changes("zz_fresh")
                        changed = set()
                        moved = False
                        for c in ch.changes:
                            if hasattr(c, "new_contents"):
                                old = files[c.resource.path]
                                new = c.new_contents
                                to = name_tokens(old)
                                tn = name_tokens(new)
                                if len(to) != len(tn):
                                    changed = None
                                    break
                                for (s, e, n), (s2, e2, n2) in zip(to, tn):
                                    if n != n2:
                                        changed.add((c.resource.path, s, e))
                            else:
                                moved = True
                        if changed is None:
                            fail("rename-changes-token-structure", {"description": ch.get_description()[:500]})
                        else:
                            res["mech"]["rename-tokens"] = res["mech"].get("rename-tokens", 0) + 1
                            want = set(locs)
                            missing = sorted(want - changed)
                            extra = sorted(l for l in changed - want if tokkey.get((l[0], l[1])) not in (None, "untracked"))
                            if key[0] == "mod":
                                pass
                            if missing or extra:
                                ef = ["missing-role:" + self.role_at(pb, l[0], l[1]) for l in missing] + \
                                     ["extra-role:" + self.role_at(pb, l[0], l[1]) for l in extra]
                                for l in missing:
                                    ef += ["missing:" + c for c in self.ctx_at(pb, l[0], l[1])] or ["missing:plain-context"]
                                for l in extra:
                                    ef += ["extra:" + c for c in self.ctx_at(pb, l[0], l[1])] or ["extra:plain-context"]
                                fail("renamed-tokens-differ", {"missing": missing, "extra": extra, "changed": sorted(changed), "want": sorted(want)}, ef)
                            else:
                                res["out"]["rename-exact"] = res["out"].get("rename-exact", 0) + 1
                                if triage:
                                    res["passfeat"].append(feats)
                    except exceptions.RopeError as e:
                        res["refused"] += 1
                        res["out"]["rename-refused"] = res["out"].get("rename-refused", 0) + 1
                    except Exception as e:
                        fail("internal:" + type(e).__name__, {"where": "Rename.get_changes", "exception": repr(e)})

    def ctx_at(self, pb, path, start):
        """syntactic context of the token at `start`: inside a lambda / comprehension (element, first iterable) / f-string"""
        import ast
        m = pb.mods[path]
        line = m.src.count("\n", 0, start) + 1
        col = start - (m.src.rfind("\n", 0, start) + 1)
        out = set()

        def walk(node, anc):
            for ch in ast.iter_child_nodes(node):
                ln, co = getattr(ch, "lineno", None), getattr(ch, "col_offset", None)
                if isinstance(ch, (ast.Name, ast.arg)) and ln == line and len(m.lines[line - 1].encode()[:co].decode()) == col:
                    for a, field in anc + [(node, None)]:
                        if isinstance(a, ast.Lambda):
                            out.add("in-lambda")
                        if isinstance(a, (ast.ListComp, ast.SetComp, ast.DictComp)):
                            out.add("in-comprehension")
                        if isinstance(a, ast.GeneratorExp):
                            out.add("in-genexp")
                        if isinstance(a, ast.JoinedStr):
                            out.add("in-fstring")
                        if field == "first-iter":
                            out.add("in-first-iterable")
                if isinstance(node, (ast.ListComp, ast.SetComp, ast.DictComp, ast.GeneratorExp)) and ch is node.generators[0]:
                    walk(ch, anc + [(node, None)])
                elif isinstance(node, ast.comprehension) and anc and ch is node.iter and isinstance(anc[-1][0], (ast.ListComp, ast.SetComp, ast.DictComp, ast.GeneratorExp)) \
                        and anc[-1][0].generators[0] is node:
                    walk(ch, anc + [(node, "first-iter")])
                else:
                    walk(ch, anc + [(node, None)])
        walk(m.tree, [])
        return sorted(out)

    def role_at(self, pb, path, start):
        m = pb.mods[path]
        for o in m.b.occs:
            try:
                if o.col is not None:
                    l, c = m.offset(o.lineno, o.col)
                    off = m.by_pos.get((l, c), (None,))[0]
                    if off == start:
                        return o.role
            except Exception:
                pass
        # header tokens (def/class names, imports, as-names, keyword args)
        line = m.src.count("\n", 0, start) + 1
        for o in m.b.occs:
            if o.col is None and o.lineno <= line <= getattr(o.node, "end_lineno", o.lineno):
                return o.role
        return "other"

    def key_features(self, pb, key, locs, files):
        f = ["class-size:%d" % min(len(locs), 5)]
        if key[0] == "mod":
            return f + ["binding:module"]
        _, p, spath, name = key
        kinds = [k for k, _, _, _ in spath]
        f.append("binding-scope:" + kinds[-1])
        mm = pb.mods[p]
        sc = [s for s in mm.b.root.all() if s.path() == spath][0]
        for r in sorted(sc.bound.get(name, ["attr-only"])):
            f.append("binding-role:" + r)
        if len({l[0] for l in locs}) > 1:
            f.append("binding:cross-module")
        for s in sc.all():
            if s is not sc and (name in s.nonlocals or name in s.globals_):
                f.append("binding:declared-global-or-nonlocal-in-inner-scope")
        return f


CHECK = C02()
