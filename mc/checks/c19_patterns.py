"""C19 - pattern matching and restructuring rewrite exactly the real instances.

Space: small modules x patterns obtained from the module's own expressions and statement runs
by abstracting every subset of <=2 sub-expressions into wildcards (equal sub-trees optionally
sharing one wildcard) x regions (whole module, every top-level statement) x goals (pattern
itself, wildcards swapped, wildcard under a tighter-binding operator, wildcard as a call
argument).  Oracle: a 60-line reference AST matcher/transformer over CPython's ast."""
import ast
import copy
import itertools
import os

from rope.base import libutils
from rope.base.project import Project
from rope.refactor import restructure, similarfinder

from ..core import Check, h8
from ..fsutil import Scratch
from ..progx import Bench

MODULES = {
    "arith": "a = p + 1\nb = a * 2\nc = (a + 1) * b\nprint(a + 1, b)\nd = f(a, b) + f(b, a)\nif a + 1 > b:\n    b = a + 1\ne = -(a + 1)\n",
    "attrs": "x = obj.attr\ny = obj.attr.attr2\nz = lst[0] + lst[1]\nw = lst[i] if i < n else lst[0]\nobj.attr = lst[0]\nv = g(obj.attr, k=lst[0])\n",
    "stmts": "a = 1\nb = a\nc = 1\nd = c\nfor i in r:\n    e = 1\n    f = e\nif a:\n    g = 2\n    h = g\nelif b:\n    a = 1\n    b = a\nelse:\n    pass\n",
    "calls": "r = f(x)\ns = f(f(x))\nt = f(x) + g(f(x), y)\nu = [f(q) for q in f(x)]\nv = lambda x: f(x)\nw = data[n:]\nz = data[:n] + data[::n]\n",
}
MODULES["runs"] = "p = 1\nq = 1\nr = 1\ns = 1\nt = 2\nif p:\n    u = 1\n    v = 1\n    w = 1\nelse:\n    t = 2\n    t = 2\n"
MODULES["semicolons"] = "a = 1; b = a\nc = f(a); d = c; e = 1\n"
MODULES["oneline-if"] = "a = 1\nif a: g = 2; h = g\n"
MODULES["comments"] = ("r = f(\n    x,  # first f( and x\n    # then y, or f(x, y) again\n    y)\nlst = [\n    a,  # one a\n    # b here, also [a, b]\n    b,\n]\n"
                       "v = g(a)  # g(a) and g(b)\n# g(b)\nw = g(b)\n")
W = ["__W0__", "__W1__"]


# ---------------------------------------------------------------------- reference matcher
def same(a, b):
    """structural equality ignoring expression context"""
    if type(a) is not type(b):
        return False
    if isinstance(a, ast.AST):
        for f, va in ast.iter_fields(a):
            vb = getattr(b, f, None)
            if isinstance(va, ast.expr_context):
                continue
            if not same(va, vb):
                return False
        return True
    if isinstance(a, list):
        return len(a) == len(b) and all(same(x, y) for x, y in zip(a, b))
    return a == b


def match(pat, node, binding):
    if isinstance(pat, ast.Name) and pat.id in W:
        if not isinstance(node, ast.expr):
            return False
        if pat.id in binding:
            return same(binding[pat.id], node)
        binding[pat.id] = node
        return True
    if type(pat) is not type(node):
        return False
    if isinstance(pat, ast.AST):
        for f, vp in ast.iter_fields(pat):
            vn = getattr(node, f, None)
            if isinstance(vp, ast.expr_context):
                continue
            if not match(vp, vn, binding):
                return False
        return True
    if isinstance(pat, list):
        return isinstance(node, list) and len(pat) == len(node) and all(match(x, y, binding) for x, y in zip(pat, node))
    return pat == node


def stmt_lists(tree):
    for n in ast.walk(tree):
        for f in ("body", "orelse", "finalbody"):
            lst = getattr(n, f, None)
            if isinstance(lst, list) and lst and isinstance(lst[0], ast.stmt):
                yield lst
        if isinstance(n, ast.Try):
            for h in n.handlers:
                pass


def find_matches(tree, pattern):
    """pattern: ast.expr or list of ast.stmt; returns [(nodes, binding)]"""
    out = []
    if isinstance(pattern, list):
        k = len(pattern)
        for lst in stmt_lists(tree):
            for i in range(len(lst) - k + 1):
                b = {}
                if match(pattern, lst[i:i + k], b):
                    out.append((lst[i:i + k], b))
    else:
        for n in ast.walk(tree):
            if isinstance(n, ast.expr):
                b = {}
                if match(pattern, n, b):
                    out.append(([n], b))
    return out


def pos(nodes):
    return (nodes[0].lineno, nodes[0].col_offset, nodes[-1].end_lineno, nodes[-1].end_col_offset)


class _Subst(ast.NodeTransformer):
    def __init__(self, binding):
        self.binding = binding

    def visit_Name(self, n):
        if n.id in self.binding:
            return copy.deepcopy(self.binding[n.id])
        return n


def transform(tree, pattern, goal):
    """reference restructuring on the AST: every match replaced by goal with bound nodes (post-order)"""
    matches = find_matches(tree, pattern)
    if isinstance(pattern, list):
        return None     # statement goals are compared only for goal == pattern
    by_id = {id(m[0][0]): m[1] for m in matches}

    class T(ast.NodeTransformer):
        def generic_visit(self, node):
            b = by_id.get(id(node))
            node = super().generic_visit(node)
            if b is not None:
                newb = {k: T().visit(copy.deepcopy(v)) if False else v for k, v in b.items()}
                # bound sub-trees have already been transformed in place (post-order): re-read them from the transformed node
                b2 = {}
                ok = match(pattern, node, b2)
                g = copy.deepcopy(goal)
                return _Subst(b2 if ok else newb).visit(g)
            return node
    return T().visit(copy.deepcopy(tree)) if False else T().visit(tree)


def pattern_text(node_or_list):
    if isinstance(node_or_list, list):
        txt = "\n".join(ast.unparse(s) for s in node_or_list)
    else:
        txt = ast.unparse(node_or_list)
    return txt.replace("__W0__", "${w0}").replace("__W1__", "${w1}")


def abstractions(node_or_list):
    """Yield (pattern ast with wildcards) for every subset of <=2 proper sub-expressions."""
    root = node_or_list

    def subexprs(r):
        out = []
        nodes = r if isinstance(r, list) else [r]
        for top in nodes:
            for n in ast.walk(top):
                if isinstance(n, ast.expr) and n is not r and not isinstance(n, (ast.Starred,)):
                    out.append(n)
        return out
    subs = subexprs(root)
    yield copy.deepcopy(root), 0
    idx = list(range(len(subs)))
    combos = [(i,) for i in idx] + [(i, j) for i in idx for j in idx if i < j]
    for combo in combos:
        chosen = [subs[i] for i in combo]
        # nested choices make no sense
        if len(chosen) == 2 and (any(c is chosen[1] for c in ast.walk(chosen[0])) or any(c is chosen[0] for c in ast.walk(chosen[1]))):
            continue
        for share in ((False, True) if len(chosen) == 2 and same(chosen[0], chosen[1]) else (False,)):
            new = copy.deepcopy(root)
            # locate the copies by position in walk order
            orig_nodes = [n for top in (root if isinstance(root, list) else [root]) for n in ast.walk(top)]
            new_nodes = [n for top in (new if isinstance(new, list) else [new]) for n in ast.walk(top)]
            mapping = {id(o): n for o, n in zip(orig_nodes, new_nodes)}
            names = {}
            for k, c in enumerate(chosen):
                names[id(mapping[id(c)])] = W[0] if share else W[k]

            class R(ast.NodeTransformer):
                def visit(self, n):
                    if id(n) in names:
                        return ast.Name(id=names[id(n)], ctx=getattr(n, "ctx", ast.Load()))
                    return super().visit(n)
            if isinstance(new, list):
                new = [R().visit(s) for s in new]
            else:
                new = R().visit(new)
            yield new, len(chosen)


class C19(Check):
    pid = "C19"
    level = "exploration"
    rule = ("cases = (module in 4, pattern source = every distinct expression node / statement run of length 1-2 of the module, "
            "abstraction = every subset of <=2 proper sub-expressions replaced by wildcards, equal sub-trees optionally sharing one "
            "wildcard); evaluations per pattern: SimilarFinder.get_matches over the whole module and over every top-level statement "
            "span compared with the reference matcher (set of matched node positions, bindings of every wildcard), and "
            "restructure.replace + Restructure(project).get_changes with 4 expression goals and a two-line statement goal compared with the reference AST transformation; "
            "non-trivial = patterns with at least one wildcard or more than one match; distinct by (module, pattern)")
    assumptions = ["reference matcher: structural equality over CPython's ast ignoring expression context; a wildcard matches any expression; repeated wildcards must bind equal code",
                   "matches are identified by the interpreter's node positions (not by rope's regions, which C08 judges)"]
    chunksize = 4

    def bound_text(self, tier):
        return "8 modules, patterns with <=2 wildcards, 4 expression goals + a multi-line statement goal"

    def cases(self, tier):
        out = []
        for mname, src in MODULES.items():
            tree = ast.parse(src)
            seen = set()
            sources = []
            for n in ast.walk(tree):
                if isinstance(n, ast.expr) and not isinstance(getattr(n, "ctx", None), (ast.Store, ast.Del)) and not isinstance(n, (ast.Starred, ast.Slice)):
                    d = ast.dump(n)
                    if d not in seen:
                        seen.add(d)
                        sources.append(("expr", n))
            for lst in stmt_lists(tree):
                for k in (1, 2):
                    for i in range(len(lst) - k + 1):
                        run = lst[i:i + k]
                        if any(isinstance(s, (ast.For, ast.If, ast.While, ast.Try, ast.FunctionDef)) for s in run):
                            continue
                        if k == 1 and isinstance(run[0], ast.Expr):
                            continue    # a single expression statement is an expression pattern (covered above)
                        d = "|".join(ast.dump(s) for s in run)
                        if d not in seen:
                            seen.add(d)
                            sources.append(("stmts", run))
            for si in range(len(sources)):
                out.append({"module": mname, "source": si})
        self._sources_cache = None
        return out

    def setup_worker(self):
        self.bench = Bench("c19")
        self.cache = {}

    def sources(self, mname):
        if mname not in self.cache:
            src = MODULES[mname]
            tree = ast.parse(src)
            seen = set()
            sources = []
            for n in ast.walk(tree):
                if isinstance(n, ast.expr) and not isinstance(getattr(n, "ctx", None), (ast.Store, ast.Del)) and not isinstance(n, (ast.Starred, ast.Slice)):
                    d = ast.dump(n)
                    if d not in seen:
                        seen.add(d)
                        sources.append(("expr", n))
            for lst in stmt_lists(tree):
                for k in (1, 2):
                    for i in range(len(lst) - k + 1):
                        run = lst[i:i + k]
                        if any(isinstance(s, (ast.For, ast.If, ast.While, ast.Try, ast.FunctionDef)) for s in run):
                            continue
                        if k == 1 and isinstance(run[0], ast.Expr):
                            continue    # a single expression statement is an expression pattern (covered above)
                        d = "|".join(ast.dump(s) for s in run)
                        if d not in seen:
                            seen.add(d)
                            sources.append(("stmts", run))
            self.cache[mname] = (src, tree, sources)
        return self.cache[mname]

    def run(self, case):
        res = {"n": 0, "nt": [], "out": {}, "mech": {}, "fails": [], "refused": 0, "passfeat": []}
        src, tree, sources = self.sources(case["module"])
        kind, node = sources[case["source"]]
        ctx = self.bench.open({"xm.py": src})
        try:
            pymod = ctx.project.get_pymodule(ctx.project.get_file("xm.py"))
            lines = src.split("\n")
            starts = [0]
            for l in lines:
                starts.append(starts[-1] + len(l) + 1)
            regions = [("whole", 0, len(src))] + [("stmt%d" % i, starts[s.lineno - 1], starts[s.end_lineno - 1] + s.end_col_offset) for i, s in enumerate(tree.body)]
            pats = list(abstractions(node))
            if case["source"] == 0 and kind == "expr":
                pats.append((ast.Name(id=W[0], ctx=ast.Load()), 1))     # the pattern that is nothing but a wildcard (matching only)
            for pat, nwild in pats:
                ptxt = pattern_text(pat)
                bare = ptxt.strip() in ("${w0}", "${w1}")
                if bare and not (case["source"] == 0 and kind == "expr" and isinstance(pat, ast.Name)):
                    continue    # a bare wildcard is an expression pattern whatever it was derived from
                key = [case["module"], ptxt]
                if "only" in case and case["only"] != ptxt:
                    continue
                feats0 = ["module:" + case["module"], "pattern-kind:" + kind, "wildcards:%d" % nwild,
                          "root:" + (type(node).__name__ if kind == "expr" else "+".join(type(s).__name__ for s in node))]
                if "${w0}" in ptxt and ptxt.count("${w0}") > 1:
                    feats0.append("shared-wildcard")

                def fail(k, ef, detail):
                    res["fails"].append({"kind": k, "features": sorted(set(feats0 + ef)), "size": len(ptxt),
                                         "detail": dict(detail, module=src, pattern=ptxt), "case": dict(case, only=ptxt)})
                refm = find_matches(tree, pat)
                if nwild or len(refm) > 1:
                    res["nt"].append(h8(key))
                # ---- matching, per region
                for rname, rs, re_ in regions:
                    res["n"] += 1
                    try:
                        got = list(similarfinder.SimilarFinder(pymod).get_matches(ptxt, {}, rs, re_))
                    except Exception as e:
                        fail("internal:" + type(e).__name__, ["in:get_matches"], {"exception": repr(e)[:300], "region": rname})
                        continue
                    gotpos = []
                    for m in got:
                        nodes = getattr(m, "ast_list", None) or [getattr(m, "ast", None)]
                        if nodes[0] is None:
                            gotpos = None
                            break
                        gotpos.append((pos(nodes), m))
                    if gotpos is None:
                        continue
                    want = []
                    for nodes, b in refm:
                        s0 = starts[nodes[0].lineno - 1] + nodes[0].col_offset
                        e0 = starts[nodes[-1].end_lineno - 1] + nodes[-1].end_col_offset
                        if rs <= s0 and e0 <= re_:
                            want.append((pos(nodes), b))
                    gp = sorted(p for p, m in gotpos)
                    wp = sorted(p for p, b in want)
                    if gp != wp:
                        missing = [p for p in wp if p not in gp]
                        extra = [p for p in gp if p not in wp]
                        ef = ["region:" + ("whole" if rname == "whole" else "statement")]
                        if missing:
                            ef.append("match-missing")
                        if extra:
                            ef.append("match-extra")
                        fail("matches-differ", ef, {"region": [rname, rs, re_], "missing": missing, "extra": extra})
                        continue
                    for p, m in gotpos:
                        b = dict(want)[p] if False else [b for pp, b in want if pp == p][0]
                        for wname, wnode in b.items():
                            g = m.get_ast(wname.strip("_").lower())
                            if g is None or not same(g, wnode):
                                fail("binding-differs", ["wildcard:" + wname], {"at": p, "rope": ast.dump(g) if g is not None else None, "reference": ast.dump(wnode)})
                    res["mech"]["get_matches"] = res["mech"].get("get_matches", 0) + 1
                # ---- restructuring
                if bare:
                    continue
                if kind == "expr":
                    goals = [("same", ptxt)]
                    if nwild == 2 and "${w1}" in ptxt:
                        goals.append(("swap", ptxt.replace("${w0}", "${TMP}").replace("${w1}", "${w0}").replace("${TMP}", "${w1}")))
                    if nwild >= 1:
                        goals.append(("tight", "-${w0}"))
                        goals.append(("call-arg", "wrap(${w0})"))
                else:
                    goals = [("same", ptxt)]
                    if isinstance(pat, list) and len(pat) <= 2:
                        # a goal of several lines: the matched statements followed by `pass`, whatever the indentation of the match;
                        # overlapping windows of a two-statement pattern are taken greedily from the top
                        goals.append(("then-pass", ptxt + "\npass"))
                for gname, gtxt in goals:
                    res["n"] += 1
                    gf = ["goal:" + gname]
                    try:
                        out_src = restructure.replace(src, ptxt, gtxt)
                    except Exception as e:
                        fail("internal:" + type(e).__name__, gf + ["in:replace"], {"exception": repr(e)[:300], "goal": gtxt})
                        continue
                    try:
                        status, payload = ctx.refactor(lambda p: restructure.Restructure(p, ptxt, gtxt).get_changes(), do=False)
                        if status == "changes":
                            new_src = [c.new_contents for c in payload.changes if hasattr(c, "new_contents")]
                            out2 = new_src[0] if new_src else src
                        elif status == "nochange":
                            out2 = src
                        else:
                            out2 = None
                            if status not in ("refused",):
                                fail(status, gf + ["in:Restructure"], {"message": str(payload), "goal": gtxt})
                    except Exception as e:
                        out2 = None
                        fail("internal:" + type(e).__name__, gf + ["in:Restructure"], {"exception": repr(e)[:300]})
                    want_dump = None
                    ref_text = None
                    needs_parens = False
                    if gname == "then-pass":
                        ref_tree = ast.parse(src)
                        matched = {id(nodes[0]) for nodes, b in find_matches(ref_tree, pat)}
                        for lst in list(stmt_lists(ref_tree)):
                            new_lst = []
                            i_ = 0
                            while i_ < len(lst):
                                if id(lst[i_]) in matched:
                                    new_lst.extend(lst[i_:i_ + len(pat)])
                                    new_lst.append(ast.Pass())
                                    i_ += len(pat)
                                else:
                                    new_lst.append(lst[i_])
                                    i_ += 1
                            lst[:] = new_lst
                        ast.fix_missing_locations(ref_tree)
                        ref_text = ast.unparse(ref_tree)
                        want_dump = ast.dump(ast.parse(ref_text))
                    if gname not in ("same", "then-pass") and not isinstance(pat, list):
                        goal_ast = ast.parse(gtxt.replace("${w0}", W[0]).replace("${w1}", W[1]), mode="eval").body
                        pat_ast = ast.parse(ptxt.replace("${w0}", W[0]).replace("${w1}", W[1]), mode="eval").body
                        ref_tree = transform(ast.parse(src), pat_ast, goal_ast)
                        ast.fix_missing_locations(ref_tree)
                        try:
                            ref_text = ast.unparse(ref_tree)
                            want_dump = ast.dump(ast.parse(ref_text))
                        except SyntaxError:
                            # the goal does not fit every matched position (e.g. an assignment target): no reference result
                            res["out"]["reference-undefined"] = res["out"].get("reference-undefined", 0) + 1
                            continue
                    # would plain textual substitution of the bound source text change the meaning?
                    for nodes, b in refm:
                        for wn, bn in b.items():
                            seg = ast.get_source_segment(src, bn)
                            if seg is None:
                                continue
                            naive = gtxt.replace("${" + wn.strip("_").lower() + "}", seg)
                            proper = gtxt.replace("${" + wn.strip("_").lower() + "}", "(" + seg + ")")
                            try:
                                if ast.dump(ast.parse(naive.replace("${w0}", "q0").replace("${w1}", "q1"))) != ast.dump(ast.parse(proper.replace("${w0}", "q0").replace("${w1}", "q1"))):
                                    needs_parens = True
                            except SyntaxError:
                                needs_parens = True
                    if needs_parens:
                        gf.append("bound-code-needs-parentheses")
                    for api, result in (("replace", out_src), ("Restructure", out2)):
                        if result is None:
                            continue
                        try:
                            got_tree = ast.parse(result)
                        except SyntaxError as e:
                            fail("restructure-syntax-error", gf + ["api:" + api], {"goal": gtxt, "result": result})
                            continue
                        if gname == "same":
                            if ast.dump(got_tree) != ast.dump(tree):
                                fail("identity-restructure-changes-tree", gf + ["api:" + api], {"goal": gtxt, "result": result})
                            continue
                        if want_dump is None:
                            continue
                        if ast.dump(got_tree) != want_dump:
                            ef = gf + ["api:" + api]
                            if api == "replace" and result == src and want_dump != ast.dump(tree):
                                ef.append("nothing-replaced")
                            fail("restructure-differs", ef, {"goal": gtxt, "result": result, "reference": ref_text})
                    res["mech"]["restructure"] = res["mech"].get("restructure", 0) + 1
        finally:
            ctx.close()
        res["out"]["source-ok" if not res["fails"] else "source-bad"] = 1
        res["sample"] = {"module": case["module"], "pattern_source": ast.unparse(node) if kind == "expr" else [ast.unparse(s) for s in node]}
        return res


CHECK = C19()
