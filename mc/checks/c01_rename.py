"""C01 - rename preserves the program: same bindings, same behaviour.

Space: the scoping schema programs of mc/scopegen.py (single-module and multi-module) x every
identifier token whose binding is defined in the project (every occurrence of every binding,
module and package names included) x one fresh name.
Oracle: the renamed project compiles; CPython prints the same (all modules run before/after);
alpha-equivalence at token level: tokens before/after align 1-1 and the reference binder's
partition of tokens into bindings is the same (key map is a bijection); the query token now
spells the new name; refusal must be a RopeError and leave the disk unchanged."""
import os

from rope.refactor.rename import Rename

from ..binder import ProjectBinding, check_against_symtable
from ..core import Check, h8
from ..progx import Bench, name_tokens
from ..runner import compiles, run_project
from .c02_occurrences import CHECK as C02CHECK, programs

NEW = "zz_fresh"


class C01(Check):
    pid = "C01"
    level = "exploration"
    rule = ("cases = programs of the scoping schemas (closures, global/nonlocal, defaults, class bodies and self attributes, "
            "comprehensions, lambdas, loop/with/except/walrus/tuple targets, keyword arguments incl. **kw callees, __init__/__call__ "
            "pairs, strings/comments/f-strings with the same word) and multi-module projects (flat and package layouts x 5-7 import "
            "styles x local shadowing, pairs of clients, same-line bindings, module named like a variable); evaluations = one "
            "Rename(project, resource, offset).get_changes(fresh) + do per (program, identifier token with a statically known "
            "in-project binding); non-trivial = performed renames; distinct by (project, offset)")
    assumptions = ["behaviour = stdout + exception type of importing every module (client modules keep their names when a module is renamed)",
                   "alpha-equivalence is judged by the reference binder (validated against symtable per program) on tokens it can bind statically"]
    chunksize = 2

    def bound_text(self, tier):
        return "all schema programs x every bound identifier token"

    def cases(self, tier):
        return [{"i": i} for i in range(len(programs(tier)))]

    def setup_worker(self):
        self.bench = Bench("c01")

    def run(self, case):
        triage = os.environ.get("MC_TRIAGE") == "1"
        res = {"n": 0, "nt": [], "out": {}, "mech": {}, "fails": [], "refused": 0, "passfeat": []}
        schema, env, files = programs("quick")[case["i"]]
        if compiles(files):
            res["n"] = 1
            res["out"]["invalid"] = 1
            return res
        base = run_project(files)
        if any(v[1] for v in base.values()):
            res["n"] = 1
            res["out"]["program-raises"] = 1
            return res
        for p, s in files.items():
            pr = check_against_symtable(s)
            if pr:
                return {"harness": "binder disagrees with symtable on %r: %r" % (s, pr[:2])}
        pb = ProjectBinding(files)
        classes = pb.classes()
        feats0 = ["schema:" + schema] + ["%s=%s" % (k, v) for k, v in sorted(env.items()) if isinstance(v, (str, bool))]
        has_f = any('f"' in s_ or "f'" in s_ for s_ in files.values())
        for key, locs in sorted(classes.items(), key=repr):
            name = key[-1] if key[0] == "lex" else key[1].split(".")[-1]
            if name.startswith("__") and name.endswith("__"):
                continue    # renaming special methods is outside the fragment (it changes the protocol, not a binding)
            kfeats = C02CHECK.key_features(pb, key, locs, files)
            for (qp, qs, qe) in locs:
                if "only" in case and case["only"] != [qp, qs]:
                    continue
                res["n"] += 1
                feats = sorted(set(feats0 + kfeats + ["query-role:" + C02CHECK.role_at(pb, qp, qs), "query-name:" + name] +
                                   ["query:" + c for c in C02CHECK.ctx_at(pb, qp, qs)] + (["has-fstring"] if has_f else [])))
                ctx = self.bench.open(files)
                try:
                    status, payload = ctx.refactor(lambda p: Rename(p, p.get_file(qp), qs).get_changes(NEW))
                    new = ctx.tree()
                finally:
                    ctx.close()
                detail = {"files": files, "query": {"path": qp, "offset": qs, "name": name}, "binding": repr(key)}
                res["mech"]["rename:" + ("module" if key[0] == "mod" else "name")] = res["mech"].get("rename:" + ("module" if key[0] == "mod" else "name"), 0) + 1

                def fail(kind, extra, ef=()):
                    res["fails"].append({"kind": kind, "features": sorted(set(feats + list(ef))), "size": len(str(files)) // 50,
                                         "detail": dict(detail, **extra), "case": dict(case, only=[qp, qs])})
                if status == "refused":
                    res["refused"] += 1
                    res["out"]["refused"] = res["out"].get("refused", 0) + 1
                    continue
                if status != "done":
                    fail(status if status != "internal" else "internal:" + str(payload).split(":")[0], {"message": str(payload)})
                    continue
                res["nt"].append(h8([files, qp, qs]))
                changed = {k: v for k, v in new.items() if files.get(k) != v}
                bad = compiles(new)
                if bad:
                    fail("syntax-error", {"result": changed, "message": bad[1]})
                    continue
                # behaviour: modules that exist before and after under the same name
                got = run_project(new)
                common = [m for m in base if m in got]
                broken = {m: v for m, v in got.items() if v[1] is not None}
                if broken:
                    fail("behaviour-differs", {"result": changed, "broken": broken})
                    continue
                if any(got[m] != base[m] for m in common):
                    fail("behaviour-differs", {"result": changed, "before": {m: base[m] for m in common}, "after": {m: got[m] for m in common}})
                    continue
                if key[0] == "mod":
                    res["out"]["module-renamed-ok"] = res["out"].get("module-renamed-ok", 0) + 1
                    continue
                # alpha-equivalence on the files that kept their path
                try:
                    pb2 = ProjectBinding(new)
                except SyntaxError:
                    continue
                fwd, bwd = {}, {}
                problem = None
                for p in files:
                    if p not in new:
                        continue
                    t1, t2 = pb.tokens[p], pb2.tokens[p]
                    if len(t1) != len(t2):
                        problem = ("token-count", p, len(t1), len(t2))
                        break
                    for (s1, e1, n1, k1), (s2, e2, n2, k2) in zip(t1, t2):
                        if n1 != n2 and n2 != NEW:
                            problem = ("other-spelling-changed", p, n1, n2)
                            break
                        if k1 in (None, "untracked") or k2 in (None, "untracked"):
                            continue
                        if fwd.setdefault(k1, k2) != k2:
                            problem = ("binding-split", p, s1, n1, repr(k1)[:80])
                            break
                        if bwd.setdefault(k2, k1) != k1:
                            problem = ("bindings-merged", p, s1, n1, repr(k1)[:80], repr(bwd[k2])[:80])
                            break
                    if problem:
                        break
                if problem:
                    fail("binding-differs", {"result": changed, "problem": list(problem)}, ["alpha:" + problem[0]])
                    continue
                # the query token now spells the new name
                t2 = {s: n for s, e, n, k in pb2.tokens.get(qp, [])}
                idx = [i for i, t in enumerate(pb.tokens[qp]) if t[0] == qs]
                if idx and qp in new and pb2.tokens[qp][idx[0]][2] != NEW:
                    fail("query-token-not-renamed", {"result": changed})
                    continue
                res["out"]["preserved"] = res["out"].get("preserved", 0) + 1
                if triage:
                    res["passfeat"].append(feats)
        res["sample"] = {"files": files}
        return res


CHECK = C01()
