"""C17 - the remaining class-level refactorings preserve behaviour or are refused.

Five generated spaces, one per refactoring (EncapsulateField, IntroduceFactory, MethodObject,
LocalToField, UseFunction); each enumerates target shapes x usage shapes x client module /
import style x query offset x options, performs the refactoring with the real code, and
lets CPython run every module before and after."""
import itertools
import os

from rope.refactor.encapsulate_field import EncapsulateField
from rope.refactor.introduce_factory import IntroduceFactory
from rope.refactor.localtofield import LocalToField
from rope.refactor.method_object import MethodObject
from rope.refactor.usefunction import UseFunction

from ..core import Check, h8
from ..progx import Bench, nth_offset
from ..runner import compiles, run_project

# ------------------------------------------------------------------ EncapsulateField
ENC_USES = [
    "print(c.count)", "y = c.count + 1\nprint(y)", "c.count = 5", "c.count += 2", "c.count *= 10",
    "c.count = c.count + 1", "print(Counter().count)", "c.count = c.count = 3", "print(c.count, c.count)",
    "if c.count:\n    c.count -= 1", "d = Sub()\nd.count = 9\nprint(d.twice())",
]
ENC_CLASS = ("class Counter:\n    def __init__(self):\n        self.count = 1\n\n    def inc(self):\n        %s\n        return self.count\n\n\n"
             "class Sub(Counter):\n    def twice(self):\n        return self.count * 2\n")
ENC_INCLASS = ["self.count += 1", "self.count = self.count + 1", "pass"]


def enc_cases():
    out = []
    for inc in range(len(ENC_INCLASS)):
        for host in ("same", "import", "from"):
            for k in (1, 2):
                for uses in itertools.product(range(len(ENC_USES)), repeat=k):
                    if k == 2 and inc != 0:
                        continue
                    for nl in (True, False):
                        if not nl and k == 2 and uses[0] > 3:
                            continue
                        out.append({"r": "enc", "inc": inc, "host": host, "uses": list(uses), "final_newline": nl})
    return out


def enc_project(case):
    cls = ENC_CLASS % ENC_INCLASS[case["inc"]]
    body = "c = Counter()\n"
    for u in case["uses"]:
        body += ENC_USES[u] + "\nprint(c.count, c.inc())\n"
    if not case["final_newline"]:
        body = body.rstrip("\n").rsplit("\n", 1)[0] if False else body
        # make the last line a write to the field without a trailing newline
        body += "c.count = 7"
    if case["host"] == "same":
        return {"xd.py": cls + "\n\n" + body}
    if case["host"] == "import":
        return {"xd.py": cls, "xu.py": "import xd\nfrom xd import Counter, Sub\n\n" + body}
    return {"xd.py": cls, "xu.py": "from xd import Counter, Sub\n\n" + body}


# ------------------------------------------------------------------ IntroduceFactory
FAC_CALLS = ["K(1)", "K(1, b=3)", "K(a=4)", "K(*[5])"]


def fac_cases():
    out = []
    for nested in (False, True, "if-block", "try-block"):
        for host in ("same", "import", "from", "both"):
            for k in (1, 2):
                for calls in itertools.product(range(len(FAC_CALLS)), repeat=k):
                    for glob in (False, True):
                        out.append({"r": "fac", "nested": nested, "host": host, "calls": list(calls), "global": glob})
    return out


def fac_project(case):
    if case["nested"] == "if-block":
        # the class stands at module level inside a compound statement, with more code following in the block
        cls = "import sys\n\nif sys.version_info > (3,):\n    class K:\n        def __init__(self, a, b=2):\n            self.a = a\n            self.b = b\n\n    STYLE = 'new'\nelse:\n    STYLE = 'old'\n\n\n"
        ref = "K"
    elif case["nested"] == "try-block":
        cls = "try:\n    class K:\n        def __init__(self, a, b=2):\n            self.a = a\n            self.b = b\n\n    STYLE = 'tagged'\nexcept ImportError:\n    STYLE = 'plain'\n\n\n"
        ref = "K"
    elif case["nested"]:
        cls = "class Outer:\n    class K:\n        def __init__(self, a, b=2):\n            self.a = a\n            self.b = b\n\n\n"
        ref = "Outer.K"
    else:
        cls = "class K:\n    def __init__(self, a, b=2):\n        self.a = a\n        self.b = b\n\n\n"
        ref = "K"

    def lines(prefix):
        s = ""
        for c in case["calls"]:
            call = FAC_CALLS[c].replace("K(", prefix + ref + "(")
            s += "o = %s\nprint(o.a, o.b, type(o).__name__)\n" % call
        return s
    top = ref.split(".")[0]
    if case["host"] == "same":
        return {"xd.py": cls + lines("")}
    if case["host"] == "import":
        return {"xd.py": cls, "xu.py": "import xd\n\n" + lines("xd.")}
    if case["host"] == "from":
        return {"xd.py": cls, "xu.py": "from xd import %s\n\n" % top + lines("")}
    return {"xd.py": cls + lines(""), "xu.py": "import xd\n\n" + lines("xd.")}


# ------------------------------------------------------------------ MethodObject
MO_SHAPES = {
    "func0": ("def f():\n    t = 2\n    return t * 21\n", "f()", "def f"),
    "func2": ("def f(a, b=3):\n    t = a + b\n    u = t * 2\n    return u - a\n", "f(1), f(2, b=5)", "def f"),
    "func-star": ("def f(a, *rest):\n    t = a + len(rest)\n    return t\n", "f(1, 2, 3)", "def f"),
    "method": ("class C:\n    k = 10\n\n    def f(self, a):\n        t = a + self.k\n        return t * 2\n\n    def g(self):\n        return self.f(1) + 1\n", "C().f(2), C().g()", "def f"),
    "method-last": ("class C:\n    k = 10\n\n    def g(self):\n        return self.f(1) + 1\n\n    def f(self, a):\n        t = a + self.k\n        return t * 2\n", "C().f(2), C().g()", "def f"),
    "nested-class": ("class Shop:\n    class Pricing:\n        rate = 2\n\n        def f(self, n):\n            t = n * self.rate\n            return t + 1\n\n    def quote(self, n):\n        return self.Pricing().f(n)\n\n    def name(self):\n        return 'shop'\n",
                     "Shop().quote(3), Shop().name(), Shop.Pricing().f(1)", "def f"),
    "in-function": ("def outer(q):\n    def f(a):\n        t = a + q\n        return t\n    return f(1)\n", "outer(5)", "def f"),
    "two-funcs": ("def f(a):\n    t = a * 3\n    return t\n\n\ndef h(b):\n    return f(b) + 1\n", "f(1), h(2)", "def f"),
}


def mo_cases():
    return [{"r": "mo", "shape": k, "host": host, "classname": cn} for k in MO_SHAPES for host in ("same", "import") for cn in (None, "NewCls")]


def mo_project(case):
    src, expr, _ = MO_SHAPES[case["shape"]]
    if case["host"] == "same":
        return {"xd.py": src + "\n\nprint(%s)\n" % expr}
    names = sorted({w for w in ("f", "C", "Shop", "outer", "h") if ("def %s" % w) in src.split("\n\n")[0] or ("class %s" % w) in src or ("\ndef %s" % w) in src or src.startswith("def %s" % w)})
    names = [n for n in names if n in expr.replace("(", " ").replace(".", " ").split() or n in expr]
    return {"xd.py": src, "xu.py": "from xd import %s\n\nprint(%s)\n" % (", ".join(names), expr)}


# ------------------------------------------------------------------ LocalToField
L2F_SRC = ("class C:\n    base = 5\n\n    def m(self, a):\n        t = a + self.base\n        u = t * 2\n        for i in range(2):\n            u += i\n        return t + u\n\n"
           "    def n(self):\n        t = 1\n        return t + self.m(1)\n\n\nprint(C().m(2), C().n())\n")


# the local is also read inside a nested function with a parameter, a nested function without one and a lambda
L2F_SRC2 = ("class C:\n    base = 5\n\n    def m(self, a):\n        t = a + self.base\n\n        def inner(extra):\n            return t + extra\n\n"
            "        def bare():\n            return t * 2\n        g = lambda z: z + t\n        return inner(1) + bare() + g(2) + t\n\n\nprint(C().m(2))\n")
# the local's name also occurs as a word inside string literals of the method and is read by another module through a key
L2F_SRC3 = ("class C:\n    def m(self, a):\n        t = a + 1\n        report = {\"t\": t, \"msg\": \"t=%d\" % t}\n        return report\n\n\nr = C().m(2)\nprint(r[\"t\"], r[\"msg\"])\n")
L2F_SRCS = [L2F_SRC, L2F_SRC2, L2F_SRC3]


def l2f_cases():
    out = []
    for var, nth in (("t", 0), ("t", 1), ("u", 0), ("u", 1), ("i", 0), ("a", 1), ("t", 3)):
        out.append({"r": "l2f", "var": var, "nth": nth})
    for nth in range(5):
        out.append({"r": "l2f", "var": "t", "nth": nth, "src": 1})
    for var in ("extra", "z", "a"):
        out.append({"r": "l2f", "var": var, "nth": 1, "src": 1})
    for nth in range(3):
        out.append({"r": "l2f", "var": "t", "nth": nth, "src": 2})
    return out


# ------------------------------------------------------------------ UseFunction
UF_FUNCS = {
    "expr": "def sq(x):\n    return x * x + 1\n",
    "stmts": "def sq(x):\n    y = x * x\n    return y + 1\n",
    "noret": "def sq(x):\n    print(x * x + 1)\n",
    "oneline-noret": "def sq(x): print(x * x + 1)\n",
    "oneline-ret": "def sq(x): return x * x + 1\n",
    "no-final-newline": "CONST = 1\n\n\ndef sq(x):\n    return x * x + 1",
}
UF_USES = {
    "expr": ["print(3 * 3 + 1)", "a = 4\nprint(a * a + 1)", "b = 2\nc = b * b + 1\nprint(c)", "print(2 * 3 + 1)", "print((1 + 1) * (1 + 1) + 1)",
             # near misses: a literal that is equal but of another type, another value, another operator
             "print(3 * 3 + 1.0)", "print(3 * 3 + True)", "print(3 * 3 + 2)", "print(3 * 3 - 1)", "print(3 * 3 + (1+0j))"],
    "stmts": ["a = 4\ny = a * a\nprint(y + 1)", "k = 2\nz = k * k\nprint(z + 1)", "print(3 * 3 + 1)"],
    "noret": ["print(3 * 3 + 1)", "a = 5\nprint(a * a + 1)"],
    "oneline-noret": ["print(3 * 3 + 1)", "a = 5\nprint(a * a + 1)"],
    "oneline-ret": ["print(3 * 3 + 1)", "a = 4\nprint(a * a + 1)"],
    "no-final-newline": ["print(3 * 3 + 1)", "a = 4\nprint(a * a + 1)"],
}


def uf_cases():
    out = []
    for fk in UF_FUNCS:
        for host in ("same", "import", "from", "lazy-import"):
            for k in (1, 2):
                for uses in itertools.product(range(len(UF_USES[fk])), repeat=k):
                    out.append({"r": "uf", "func": fk, "host": host, "uses": list(uses)})
    return out


def uf_project(case):
    f = UF_FUNCS[case["func"]]
    body = "\n".join(UF_USES[case["func"]][u] for u in case["uses"]) + "\n"
    if case["host"] == "same":
        if case["func"] == "no-final-newline":
            return {"xd.py": body + "\n\n" + f}      # the function ends the file, which has no final newline
        return {"xd.py": f + "\n\n" + body + "print(sq(2))\n" if "noret" not in case["func"] else f + "\n\n" + body + "sq(2)\n"}
    if case["host"] == "lazy-import":
        # the using module mentions `import xd` only inside a function: a module-level import must still be added
        return {"xd.py": f, "xu.py": "def lazy():\n    import xd\n    return xd\n\n\n" + body}
    imp = "import xd\n\n" if case["host"] == "import" else "from xd import sq\n\n"
    return {"xd.py": f, "xu.py": imp + body}


class C17(Check):
    pid = "C17"
    level = "exploration"
    rule = ("cases: EncapsulateField = (in-class use in 3 forms, host in {same module, import, from-import}, 1-2 client uses from 11 "
            "read/write/augmented/chained/conditional/subclass shapes, file with/without final newline) x query at the field's "
            "definition and at a use; IntroduceFactory = (top-level/nested class, 4 hosts, 1-2 constructor call shapes, global/static "
            "factory); MethodObject = 8 function/method shapes (incl. method of a nested class, last/first method, closure) x host x "
            "class name option; LocalToField = every local/parameter/loop variable occurrence of a method; UseFunction = 3 function "
            "body kinds x hosts x 1-2 candidate uses (same shape with other names, non-instances). Every performed result is compiled and "
            "all modules run before/after. non-trivial = performed requests; distinct by (project, offset, options)")
    assumptions = ["behaviour = stdout + exception type of importing every module of the project"]
    chunksize = 4

    def bound_text(self, tier):
        return "all five spaces as described (1-2 uses per client)"

    def cases(self, tier):
        return enc_cases() + fac_cases() + mo_cases() + l2f_cases() + uf_cases()

    def setup_worker(self):
        self.bench = Bench("c17")

    def requests(self, case, files):
        """[(label, module, offset, callable(project, resource, offset) -> changes)]"""
        r = case["r"]
        out = []
        if r == "enc":
            out.append(("at-definition", "xd.py", files["xd.py"].index("self.count = 1") + 5,
                        lambda p, res, off: EncapsulateField(p, res, off).get_changes()))
            um = "xd.py" if case["host"] == "same" else "xu.py"
            i = files[um].find("c.count")
            if i >= 0:
                out.append(("at-use", um, i + 2, lambda p, res, off: EncapsulateField(p, res, off).get_changes()))
            out.append(("custom-names", "xd.py", files["xd.py"].index("self.count = 1") + 5,
                        lambda p, res, off: EncapsulateField(p, res, off).get_changes(getter="read_count", setter="write_count")))
        elif r == "fac":
            off = files["xd.py"].index("class K") + 6
            out.append(("at-class", "xd.py", off,
                        lambda p, res, off: IntroduceFactory(p, res, off).get_changes("create", global_factory=case["global"])))
        elif r == "mo":
            src = files["xd.py"]
            off = src.index("def f") + 4
            out.append(("at-def", "xd.py", off, lambda p, res, off: MethodObject(p, res, off).get_changes(classname=case["classname"])))
        elif r == "l2f":
            # find the n-th identifier token equal to var
            from ..progx import name_tokens
            toks = [t for t in name_tokens(files["xd.py"]) if t[2] == case["var"]]
            off = toks[min(case["nth"], len(toks) - 1)][0]
            out.append(("at-var", "xd.py", off, lambda p, res, off: LocalToField(p, res, off).get_changes()))
        elif r == "uf":
            off = files["xd.py"].index("def sq") + 4
            out.append(("at-def", "xd.py", off, lambda p, res, off: UseFunction(p, res, off).get_changes()))
        return out

    def run(self, case):
        triage = os.environ.get("MC_TRIAGE") == "1"
        res = {"n": 0, "nt": [], "out": {}, "mech": {}, "fails": [], "refused": 0, "passfeat": []}
        files = {"enc": enc_project, "fac": fac_project, "mo": mo_project, "uf": uf_project}.get(case["r"], lambda c: {"xd.py": L2F_SRCS[c.get("src", 0)]})(case)
        if compiles(files):
            return {"harness": "generated project does not compile: %r" % files}
        base = run_project(files)
        if any(v[1] for v in base.values()):
            res["n"] = 1
            res["out"]["base-raises:" + case["r"]] = 1
            return res
        feats0 = ["refactoring:" + case["r"]]
        for k, v in case.items():
            if k in ("uses", "calls"):
                feats0 += ["%s:%s:%d" % (case["r"], k[:-1], x) for x in v]
            elif k not in ("r", "only"):
                feats0.append("%s:%s=%s" % (case["r"], k, v))
        for label, mod, off, fn in self.requests(case, files):
            if "only" in case and case["only"] != label:
                continue
            res["n"] += 1
            ctx = self.bench.open(files)
            try:
                status, payload = ctx.refactor(lambda p: fn(p, p.get_file(mod), off))
                new = ctx.tree()
            finally:
                ctx.close()
            feats = sorted(set(feats0 + ["query:" + label]))
            res["mech"][case["r"]] = res["mech"].get(case["r"], 0) + 1
            detail = {"files": files, "query": label, "module": mod, "offset": off}

            def fail(k, extra):
                res["fails"].append({"kind": k, "features": feats, "size": sum(len(s) for s in files.values()) // 40,
                                     "detail": dict(detail, **extra), "case": dict(case, only=label)})
            if status == "refused":
                res["refused"] += 1
                res["out"]["refused:" + case["r"]] = res["out"].get("refused:" + case["r"], 0) + 1
                continue
            if status != "done":
                fail(status if status != "internal" else "internal:" + str(payload).split(":")[0], {"message": str(payload)})
                continue
            if new == files:
                res["out"]["no-op:" + case["r"]] = res["out"].get("no-op:" + case["r"], 0) + 1
                continue
            res["nt"].append(h8([files, label]))
            bad = compiles(new)
            changed = {k: v for k, v in new.items() if files.get(k) != v}
            if bad:
                fail("syntax-error", {"result": changed, "message": bad[1]})
                continue
            got = run_project(new, sorted(base))
            if got != base:
                fail("behaviour-differs", {"result": changed, "before": base, "after": got})
                continue
            res["out"]["preserved:" + case["r"]] = res["out"].get("preserved:" + case["r"], 0) + 1
            if triage:
                res["passfeat"].append(feats)
        res["sample"] = {"files": files}
        return res


CHECK = C17()
