"""C20 - completion and definition lookup are sound at every cursor position.

Space: modules from the scoping schemas (closures, global/nonlocal, defaults, classes with
self attributes, nested helpers, parameter kinds, comprehension/lambda modules) x EVERY
character offset x {module as it is, rest of the current line deleted (incomplete line)} x
maxfixes {1,3} x later_locals {True, False}; plus get_definition_location at every identifier
token.  Oracle: the reference binder (names visible at the position under Python's scoping
rules; definition lines of each binding) - validated against symtable per module."""
import ast
import builtins
import io
import keyword
import os
import tokenize

from rope.base import exceptions
from rope.contrib import codeassist, findit

from ..binder import ProjectBinding, build, check_against_symtable, owner_scope, resolve
from ..core import Check, h8
from ..progx import Bench, name_tokens
from ..runner import compiles
from ..scopegen import SCHEMAS, expand

# smaller menus: one program per interesting combination instead of the full product
PICK = {
    "S1": dict(g0=["a"], p0=["a", "b"], dflt=["", "={g0}"], decl1=["pass", "global {g0}"], l0=["a", "b"], decl2=["pass", "nonlocal {l0}", "global {g0}"],
               w=["pass", "{l0} = 5"], u0=["a", "b"], u1=["b"]),
    "S2": dict(g0=["a", "b"], k0=["a", "b"], u2=["5", "{g0}"], p1=["a", "b"], u3=["a", "{p1}"], u4=["a", "b"]),
    "S4": dict(g0=["a"], p0=["a", "b"], l0=["a", "b"], u0=["a", "b"], u1=["b"], u2=["a"], k0=["a", "b"], u3=["a", "b"]),
    "S5": dict(p0=["a", "b"], va=["va", "b"], ko=["ko", "a"], kw=["kw"], l0=["a"], g0=["a", "b"], g1=["fh"], g2=["i", "b"]),
    "S6": dict(p0=["a", "b"], g0=["a", "b"], g1=["b", "c"]),
    "S7": dict(p0=["a", "b"], p1=["b", "c"], q0=["a", "b"]),
    "S9": dict(g0=["a", "b"], p0=["a", "b"], l0=["a", "c"], u0=["a", "b"], imp=["late", "a"]),
    "S8": dict(g0=["a", "b"], p0=["a", "b"], l0=["a", "b", "c"], u0=["a", "b"]),
    "S10": dict(g0=["a"], g1=["b"], p0=["a", "b"], u0=["a", "b"], p1=["c", "b"], u1=["a", "b"], ann=["int"], l0=["a", "c"], u2=["a", "b"]),
    "S2T": dict(g0=["a", "b"], k0=["a", "b"], u2=["5", "{g0}"], p1=["a", "b"], u3=["a", "{p1}"], u4=["a", "b"]),
    "S13": dict(g0=["a"], g1=["b"], k0=["a", "b"], k1=["b", "c"], u0=["a", "b"], u1=["b", "c"]),
    "S11": dict(k0=["a"], m0=["c"], g0=["caf\u00e9", "match", "case", "type", "_", "a"], g1=["stra\u00dfen", "b"]),
    "S12": dict(g0=["a"], l0=["a", "b"], p1=["c", "b"], mb=["pass"], w=["{l0} = 7", "{l0} += 1"], u1=["a", "b"]),
    "S3C": dict(g0=["a"], p0=["a", "b"], c2=["a", "b"], e0=["e", "a"], w0=["w"], t0=["t", "a"], u2=["b"]),
}
BUILTINS = set(dir(builtins))
KEYWORDS = set(keyword.kwlist)


def modules():
    out = []
    for name, holes in PICK.items():
        tmpl = SCHEMAS[name][0]
        for env, src in expand(tmpl, holes):
            if compiles({"xm.py": src}):
                continue
            out.append((name, env, src))
    return out


_MODS = None


def mods():
    global _MODS
    if _MODS is None:
        _MODS = modules()
    return _MODS


class C20(Check):
    pid = "C20"
    level = "exploration"
    rule = ("cases = modules of 14 scoping schemas (incl. a tab-indented class, comprehensions in a class body) (incl. non-ASCII and soft-keyword receiver names, nonlocal through three nested functions) (incl. multi-line default values / annotations / decorator arguments that read names the function also binds) (incl. a function-level import of a project module) (incl. multi-line statements whose continuation lines are indented less than the enclosing def) (selected hole menus; CPython-valid); evaluations = one code_assist call per "
            "(module, character offset, variant in {as is, rest of line deleted}, maxfixes in {1,3}, later_locals in {T,F}) and one "
            "get_definition_location call per identifier token; checks: no exception on a valid module (only RopeError tolerated on "
            "the truncated variant); every proposal starts with the typed prefix; on statement-body positions outside "
            "strings/comments/headers/comprehensions the proposed module identifiers == the names visible there per the binder "
            "(two-sided for the intact module with later_locals=True, one-sided otherwise); definition lines == binding lines of the "
            "reference binding; non-trivial = positions inside a function/class body or with a non-empty prefix; distinct by "
            "(module, offset, variant, settings)")
    assumptions = ["reference = binder validated against symtable per module", "names ending in '=' (keyword-argument proposals) are not judged",
                   "class-body names are visible only inside that body; comprehension/lambda interiors and def/class/import/global lines are not judged for completeness"]
    chunksize = 1
    budget_quick = 450

    def bound_text(self, tier):
        return "%d modules x every offset x 2 variants x 4 settings" % len(mods())

    def cases(self, tier):
        return [{"i": i} for i in range(len(mods()))]

    def setup_worker(self):
        self.bench = Bench("c20")
        self.ctx = self.bench.open({"xplaceholder.py": "", "xlibmod.py": "# library module used by schema S9\n\n\n\n\n\n\ndef tool():\n    return 1\n\n\nlate = 2\na = 3\n"})
        self.xm = self.ctx.project.get_file("xplaceholder.py")

    def run(self, case):
        res = {"n": 0, "nt": [], "out": {}, "mech": {}, "fails": [], "refused": 0, "passfeat": []}
        schema, env, src = mods()[case["i"]]
        pr = check_against_symtable(src)
        if pr:
            return {"harness": "binder disagrees with symtable on %r: %r" % (src, pr[:2])}
        project = self.ctx.project
        tree, b = build(src)
        pb = ProjectBinding({"xm.py": src})
        toks = pb.tokens["xm.py"]
        idents = {n for s, e, n, k in toks}
        lines = src.split("\n")
        starts = [0]
        for l in lines:
            starts.append(starts[-1] + len(l) + 1)
        # string / comment spans
        nocode = []
        for t in tokenize.generate_tokens(io.StringIO(src).readline):
            if t.type in (tokenize.STRING, tokenize.COMMENT) or t.type in (getattr(tokenize, "FSTRING_START", -1), getattr(tokenize, "FSTRING_MIDDLE", -1), getattr(tokenize, "FSTRING_END", -1)):
                nocode.append((starts[t.start[0] - 1] + t.start[1], starts[t.end[0] - 1] + t.end[1]))
        # line classification
        header_lines = set()
        skip_lines = set()
        for n in ast.walk(tree):
            if isinstance(n, (ast.FunctionDef, ast.AsyncFunctionDef, ast.ClassDef)):
                for l in range(n.lineno, n.body[0].lineno):
                    header_lines.add(l)
            if isinstance(n, (ast.Global, ast.Nonlocal, ast.Import, ast.ImportFrom)):
                skip_lines.add(n.lineno)
            if isinstance(n, (ast.ListComp, ast.SetComp, ast.DictComp, ast.GeneratorExp, ast.Lambda)):
                for l in range(n.lineno, n.end_lineno + 1):
                    skip_lines.add(l)
            if isinstance(n, (ast.ExceptHandler, ast.With, ast.For)) and False:
                skip_lines.add(n.lineno)

        def scope_at(lineno):
            best = b.root
            for sc in b.root.all():
                if sc.kind in ("function", "class") and sc.node.body[0].lineno <= lineno <= sc.node.end_lineno:
                    if sc.node.lineno >= best.lineno:
                        best = sc
            return best

        def visible(lineno):
            sc = scope_at(lineno)
            out = set()
            s = sc
            first = True
            while s is not None:
                if first or s.kind != "class":
                    for n in s.bound:
                        if n in s.globals_ or n in s.nonlocals:
                            continue
                        out.add(n)
                    out |= set(s.globals_) & set(b.root.bound) | {n for n in s.nonlocals}
                first = False
                s = s.parent
            # names declared global somewhere and bound there are module names
            for c in b.root.all():
                out |= {n for n in c.bound if n in c.globals_}
            return out

        feats0 = ["schema:" + schema]
        bind_lines = {}
        for o in b.occs:
            if o.role in ("store", "del", "param", "defname", "exceptname", "matchname"):
                tgt = owner_scope(o.scope, o.name)
                if tgt is not None:
                    line = o.lineno
                    if o.role == "param":
                        line = o.scope.node.lineno
                    bind_lines.setdefault(("lex", "xm.py", tgt.path(), o.name), set()).add(line)

        def fail(kind, ef, detail):
            if len(res["fails"]) < 60:
                res["fails"].append({"kind": kind, "features": sorted(set(feats0 + ef)), "size": detail.get("offset", 0),
                                     "detail": dict(detail, source=src), "case": case})
        # ---- completions
        for offset in range(len(src) + 1):
            lineno = src.count("\n", 0, offset) + 1
            in_nocode = any(s < offset <= e for s, e in nocode)
            line_end = src.find("\n", offset)
            line_end = len(src) if line_end < 0 else line_end
            for variant in ("intact", "truncated"):
                text = src if variant == "intact" else src[:offset] + src[line_end:]
                if variant == "truncated" and text == src:
                    continue
                for maxfixes in (1, 3):
                    for later in (True, False):
                        if variant == "intact" and maxfixes == 3:
                            continue
                        res["n"] += 1
                        ef = ["variant:" + variant, "maxfixes:%d" % maxfixes, "later_locals:%s" % later]
                        cur_line = text[text.rfind("\n", 0, offset) + 1:(text.find("\n", offset) if text.find("\n", offset) >= 0 else len(text))]
                        if not cur_line.strip():
                            ef.append("cursor-on-blank-line")
                        before = text[:offset]
                        if before and before[-1] in " \t" and before.rstrip() and (before.rstrip()[-1].isalnum() or before.rstrip()[-1] == "_"):
                            ef.append("cursor-after-identifier-and-space")
                        try:
                            props = codeassist.code_assist(project, text, offset, maxfixes=maxfixes, later_locals=later)
                            start = codeassist.starting_offset(text, offset)
                        except exceptions.RopeError as e:
                            # the library's own error type is not an internal error
                            res["refused"] += 1
                            res["out"]["refused:" + type(e).__name__] = res["out"].get("refused:" + type(e).__name__, 0) + 1
                            continue
                        except Exception as e:
                            fail("internal:" + type(e).__name__, ef, {"offset": offset, "exception": repr(e)[:300], "line": lines[lineno - 1]})
                            continue
                        prefix = text[start:offset]
                        names = [p.name for p in props]
                        bad = [n for n in names if not n.startswith(prefix)]
                        if bad:
                            fail("proposal-does-not-extend-prefix", ef, {"offset": offset, "prefix": prefix, "proposals": bad[:5]})
                            continue
                        res["mech"]["code_assist"] = res["mech"].get("code_assist", 0) + 1
                        dotted = start > 0 and text[:start].rstrip().endswith(".")
                        if in_nocode or dotted or lineno in header_lines or lineno in skip_lines:
                            continue
                        got = {n for n in names if not n.endswith("=")}
                        vis = visible(lineno)
                        want = {n for n in vis if n.startswith(prefix)}
                        got_id = {n for n in got if n in idents}
                        sc = scope_at(lineno)
                        if sc.kind != "module" or prefix:
                            res["nt"].append(h8([case["i"], offset, variant, maxfixes, later]))
                        # soundness: everything proposed is referable here
                        unsound = {n for n in got if n not in vis and n not in BUILTINS and n not in KEYWORDS and not n.startswith("__")}
                        if unsound:
                            roles = set()
                            for n in unsound:
                                for s_ in b.root.all():
                                    if n in s_.bound:
                                        roles |= {"offered-from:" + s_.kind}
                            fail("proposal-not-visible", ef + sorted(roles) + ["at:" + sc.kind], {"offset": offset, "prefix": prefix, "unsound": sorted(unsound), "line": lines[lineno - 1]})
                            continue
                        if variant == "intact":
                            if later:
                                missing = want - got_id
                            else:
                                # names of the innermost scope that are first bound after the cursor line may be left out
                                firstline = {}
                                for o_ in b.occs:
                                    if o_.role in ("store", "param", "defname", "import", "importfrom", "exceptname") and owner_scope(o_.scope, o_.name if o_.role not in ("import", "importfrom") else (o_.extra.asname or o_.extra.name.split(".")[0])) is sc:
                                        nm_ = o_.name if o_.role not in ("import", "importfrom") else (o_.extra.asname or o_.extra.name.split(".")[0])
                                        ln_ = sc.node.lineno if o_.role == "param" else o_.lineno
                                        firstline[nm_] = min(firstline.get(nm_, 10 ** 9), ln_)
                                missing = {n for n in want - got_id if not (n in firstline and firstline[n] >= lineno and resolve(sc, n) is sc)}
                            if missing:
                                roles = set()
                                for n in missing:
                                    tgt = resolve(sc, n)
                                    if tgt is not None:
                                        roles |= {"missing-role:" + r for r in tgt.bound.get(n, [])} | {"missing-from:" + tgt.kind}
                                fail("visible-name-not-offered", ef + sorted(roles) + ["at:" + sc.kind], {"offset": offset, "prefix": prefix, "missing": sorted(missing), "line": lines[lineno - 1]})
        # ---- definition lookup
        tokkey_at = {s_: k_ for s_, e_, n_, k_ in toks}
        stmts_at = {}
        for node in ast.walk(tree):
            if isinstance(node, ast.stmt):
                first = min([node.lineno] + [d_.lineno for d_ in getattr(node, "decorator_list", [])])
                stmts_at.setdefault(node.lineno, []).append(node)
                stmts_at.setdefault(first, []).append(node)
        for s, e, n, k in toks:
            if k in (None, "untracked") or k[0] != "lex":
                continue
            res["n"] += 1
            want = bind_lines.get(k)
            if not want:
                continue
            sc_k = [x for x in b.root.all() if x.path() == k[2]]
            if sc_k and "import" in sc_k[0].bound.get(n, ()):
                continue    # (also) bound by an import: the definition legitimately lies in the imported module
            try:
                resr, line = codeassist.get_definition_location(project, src, s)
            except Exception as ex:
                fail("internal:" + type(ex).__name__, ["in:get_definition_location"], {"offset": s, "name": n, "exception": repr(ex)[:200]})
                continue
            res["mech"]["get_definition_location"] = res["mech"].get("get_definition_location", 0) + 1
            if line not in want:
                roles = []
                sc_ = [x for x in b.root.all() if x.path() == k[2]]
                if sc_:
                    roles = ["def-role:" + r for r in sc_[0].bound.get(n, ["attr-only"])] + ["def-scope:" + sc_[0].kind]
                fail("definition-line-differs", roles, {"offset": s, "name": n, "rope_line": line, "binding_lines": sorted(want)})
                continue
            # the same question through findit.find_definition (a Location with region and line), on the module as a resource
            try:
                loc = findit.find_definition(project, src, s, resource=self.xm)
            except Exception as ex:
                fail("internal:" + type(ex).__name__, ["in:find_definition"], {"offset": s, "name": n, "exception": repr(ex)[:200]})
                continue
            res["mech"]["find_definition"] = res["mech"].get("find_definition", 0) + 1
            ok_loc = False
            if loc is not None and src[loc.region[0]:loc.region[1]] == n:
                if loc.lineno in want:
                    ok_loc = True
                elif tokkey_at.get(loc.region[0]) == k:
                    # the exact token of a binding that sits on a continuation line of the binding statement / header
                    for L in want:
                        for node in stmts_at.get(L, ()):
                            hend = node.body[0].lineno - 1 if isinstance(node, (ast.FunctionDef, ast.AsyncFunctionDef, ast.ClassDef)) else node.end_lineno
                            if L <= loc.lineno <= hend:
                                ok_loc = True
            if line is not None and not ok_loc:
                fail("find-definition-differs", ["def-lookup:findit"], {"offset": s, "name": n, "binding_lines": sorted(want),
                                                                         "location": None if loc is None else [loc.lineno, list(loc.region)]})
        res["out"]["module-ok" if not res["fails"] else "module-bad"] = 1
        res["sample"] = {"source": src}
        return res


CHECK = C20()
