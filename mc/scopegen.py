"""Bounded-exhaustive program spaces for the name-binding properties (C01, C02, C20).

A schema is a source template with holes; each hole has a small menu; the space is the full
product, de-duplicated by text and filtered by "CPython compiles it and runs it to completion".
Identifier menus are two names (a, b) so that shadowing, capture and same-name collisions occur
in most members.  Definitions carry distinct values, so a read that lands on another binding
changes the output."""
import itertools

from .runner import compiles, run_project

S1 = ("{g0} = 1\n\n\ndef f({p0}{dflt}):\n    {decl1}\n    {l0} = {p0} + 10\n\n    def g():\n        {decl2}\n        {w}\n        return {u0}\n"
      "    return g() + {u1}\n\n\nprint(f(2), f({p0}=4), {g0})\n")
S1_HOLES = {"g0": ["a", "b"], "p0": ["a", "b"], "dflt": ["", "={g0}"], "decl1": ["pass", "global {g0}"], "l0": ["a", "b"],
            "decl2": ["pass", "nonlocal {l0}", "global {g0}"], "w": ["pass", "{l0} = 5"], "u0": ["a", "b"], "u1": ["a", "b"]}

S2 = ("{g0} = 1\n\n\nclass K:\n    {k0} = {u2}\n\n    def m(self, {p1}=3):\n        self.{k0} = {u3}\n        return {u3} + self.{k0}\n\n"
      "    def n(self):\n        return {u4}\n\n\no = K()\nprint(K.{k0}, o.m(), o.m({p1}=1), o.n(), o.{k0}, {g0})\n")
S2_HOLES = {"g0": ["a", "b"], "k0": ["a", "b"], "u2": ["5", "{g0}"], "p1": ["a", "b"], "u3": ["a", "b", "{p1}"], "u4": ["a", "b"]}

S3A = ("{g0} = 3\nb0 = 2\n\n\ndef fn({p0}):\n    r = sum([{c0} * {u0} for {c0} in range({p0})])\n    q = [{c0} for {c0} in [{u0}] if {c0}]\n"
       "    d = {{{c0}: {u0} for {c0} in range(2)}}\n    return r + len(q) + len(d) + {u2}\n\n\nprint(fn(3), {g0})\n")
S3A_HOLES = {"g0": ["a", "b"], "p0": ["a", "b"], "c0": ["a", "b"], "u0": ["a", "b", "b0"], "u2": ["a", "b"]}

S3B = ("{g0} = 3\n\n\ndef fn({p0}):\n    h = lambda {c0}: {c0} + {u0}\n    k = lambda {c0}={u0}: {c0}\n    return h(1) + k() + {u2}\n\n\nprint(fn(3), {g0})\n")
S3B_HOLES = {"g0": ["a", "b"], "p0": ["a", "b"], "c0": ["a", "b"], "u0": ["a", "b"], "u2": ["a", "b"]}

S3C = ("{g0} = 3\n\n\ndef fn({p0}):\n    r = {p0}\n    for {c2} in range(2):\n        r += {c2}\n    try:\n        r //= 0\n    except ZeroDivisionError as {e0}:\n"
       "        r += len(str({e0})) * 0\n    if ({w0} := r) > 100:\n        r = {w0}\n    ({t0}, t1) = (r, 0)\n    return r + {t0} + {u2}\n\n\nprint(fn(3), {g0})\n")
S3C_HOLES = {"g0": ["a", "b"], "p0": ["a", "b"], "c2": ["a", "b"], "e0": ["e", "a"], "w0": ["w", "b"], "t0": ["t", "a"], "u2": ["a", "b"]}

S3D = ("{g0} = 3\n\n\ndef fn({p0}):\n    r = 0\n    r += sum({c0} for {c0} in range(2) if {c0})\n    if [{c0} for {c0} in range({u0})]:\n        r += 1\n"
       "    return r + len([{c0} for {c0} in range({u0})]) + {u2}\n\n\nprint(fn(3), {g0})\n")
S3D_HOLES = {"g0": ["a", "b"], "p0": ["a", "b"], "c0": ["a", "b"], "u0": ["a", "b"], "u2": ["a", "b"]}

S3E = ("{g0} = 3\n\n\ndef {fname}({p0}):\n    return {p0} + 1\n\n\nprint({fname}(3), {g0})  # {g0} in a comment, {fname} too\n"
       "s = \"{g0}\" + f\"{{{g0}}}\" + '{p0}' + f'{{{fname}(1)}} {{{g0}!r:>3}}'\nprint(s)\n")
S3E_HOLES = {"g0": ["a", "b"], "p0": ["a", "b"], "fname": ["f", "fn", "rb"]}

S4 = ("{g0} = 10\n\n\ndef outer({p0}):\n    {l0} = {p0} * 2\n\n    def mid():\n        def inner():\n            return {u0} + {u1}\n        return inner() + {u2}\n"
      "    del_me = 1\n    del del_me\n    {l0} += 1\n    return mid() + {l0}\n\n\nclass Box:\n    {k0} = 7\n\n    def get(self):\n        def helper():\n            return {u3} + 1\n"
      "        return helper() + self.{k0}\n\n\nprint(outer(1), Box().get(), Box.{k0}, {g0})\n")
S4_HOLES = {"g0": ["a", "b"], "p0": ["a", "b"], "l0": ["a", "b"], "u0": ["a", "b"], "u1": ["a", "b"], "u2": ["a", "b"], "k0": ["a", "b"], "u3": ["a", "b"]}

S5 = ("def mk({p0}, *{va}, {ko}=1, **{kw}):\n    return {p0} + len({va}) + {ko} + len({kw})\n\n\ndef call():\n    {l0} = 2\n    return mk({l0}, 1, {ko}=3, zz=4) + mk({p0}=1)\n\n\n"
      "{g0} = call()\nwith open(__file__) as {g1}:\n    pass\nfor {g2} in range(2):\n    {g0} += {g2}\nprint({g0}, [{g0} for _ in range(1)], dict({g0}=1))\n")
S5_HOLES = {"p0": ["a", "b"], "va": ["va", "b"], "ko": ["ko", "a"], "kw": ["kw"], "l0": ["a", "b"], "g0": ["a", "b"], "g1": ["fh", "a"], "g2": ["i", "b"]}

S6 = ("def conf({p0}, **kw):\n    return ({p0}, sorted(kw.items()))\n\n\n{g0} = 5\n{g1} = 6\nprint(conf(1, {g0}={g0}, other={g1}), conf({p0}=2, {g1}={g0}))\n")
S6_HOLES = {"p0": ["a", "b"], "g0": ["a", "b"], "g1": ["a", "b", "c"]}

S7 = ("class K:\n    def __init__(self, {p0}, {p1}=0):\n        self.v = {p0} + {p1}\n\n    def __call__(self, {q0}):\n        return self.v + {q0}\n\n"
      "    def m(self, {q0}=1):\n        return {q0}\n\n\nk = K({p0}=1)\nprint(k({q0}=2), K(3, {p1}=4)(5), k.m({q0}=6), K({p0}=7).m())\n")
S7_HOLES = {"p0": ["a", "b"], "p1": ["b", "c"], "q0": ["a", "b"]}

S8 = ("{g0} = 1\n\n\nclass W:\n    def fn(self, {p0}):\n        {l0} = [\n  {p0},\n  2]\n        s = \"\"\"x\n\"\"\" + str({l0})\n        t = ({p0} +\n{l0}[0])\n"
      "        return len({l0}) + {u0} + len(s) + t\n\n\nprint(W().fn(3), {g0})\n")
S8_HOLES = {"g0": ["a", "b"], "p0": ["a", "b"], "l0": ["a", "b", "c"], "u0": ["a", "b"]}

S9 = ("{g0} = 1\n\n\ndef fn({p0}):\n    from xlibmod import tool, {imp}\n    {l0} = tool()\n    if {p0}:\n        {l0} += 1\n    x1 = 1\n    x2 = 2\n    x3 = 3\n    x4 = 4\n"
      "    return {l0} + {p0} + {u0} + {imp}\n\n\nprint(fn(1), {g0})\n")
S9_HOLES = {"g0": ["a", "b"], "p0": ["a", "b"], "l0": ["a", "b", "c"], "u0": ["a", "b"], "imp": ["late", "a"]}

# header expressions (defaults, annotations, decorator arguments) that span several physical lines and
# mention names which the function also binds: they are evaluated in the enclosing scope
S10 = ("{g0} = 2\n{g1} = 3\n\n\ndef deco(v):\n    return lambda f: f\n\n\n@deco([\n    {u2},\n])\ndef fn({p0}, d=[\n        {u0},\n        {u0} * 2,\n], {p1}=5, *, k: {ann} = (\n        {u1}\n)) -> [\n    {u2}]:\n"
       "    {l0} = {p0}\n    return {l0} + len(d) + d[0] + {p1} + k\n\n\nprint(fn(1), fn(1, {p1}=2), {g0}, {g1})\n")
S10_HOLES = {"g0": ["a", "b"], "g1": ["b", "c"], "p0": ["a", "b"], "u0": ["a", "b"], "p1": ["a", "b", "c"], "u1": ["a", "b", "c"], "ann": ["int", "{g0}.__class__"],
             "l0": ["a", "c"], "u2": ["a", "b", "c"]}

# receivers whose names are not plain ASCII identifiers or are soft keywords
S11 = ("class K:\n    {k0} = 1\n\n    def {m0}(self):\n        return self.{k0}\n\n\n{g0} = K()\n{g1} = [K()]\nprint({g0}.{k0}, {g0}.{m0}(), {g1}[0].{k0})\n")
S11_HOLES = {"k0": ["a", "b"], "m0": ["c", "d"], "g0": ["caf\u00e9", "match", "case", "type", "_", "a"], "g1": ["stra\u00dfen", "b"]}
# three nested functions: the outermost binds the variable, the innermost declares it nonlocal
S12 = ("{g0} = 1\n\n\ndef outer():\n    {l0} = 10\n\n    def mid({p1}):\n        {mb}\n\n        def inner():\n            nonlocal {l0}\n            {w}\n            return {l0}\n"
       "        return inner() + {u1}\n    return mid(2) + {l0}\n\n\nprint(outer(), {g0})\n")
S12_HOLES = {"g0": ["a", "b"], "l0": ["a", "b"], "p1": ["c", "b"], "mb": ["pass", "c0 = 5"], "w": ["{l0} = 7", "{l0} += 1"], "u1": ["a", "b"]}

# a comprehension written directly in a class body: its first iterable is evaluated in the class scope, the rest is not
S13 = ("{g0} = [1, 2]\n{g1} = 3\n\n\nclass K:\n    {k0} = [4, 5]\n    {k1} = 6\n    d = [w * {u1} for w in {u0}]\n    e = sum(w for w in {u0} if w)\n\n    def m(self):\n        return [w for w in self.{k0}]\n\n\n"
       "print(K.d, K.e, K().m(), {g0}, {g1})\n")
S13_HOLES = {"g0": ["a", "b"], "g1": ["b", "c"], "k0": ["a", "b"], "k1": ["b", "c"], "u0": ["a", "b"], "u1": ["b", "c"]}
# a parameter that the body rebinds with a nested def / class / import of the same name (the default-callback idiom)
S14 = ("{g0} = 'g'\n\n\ndef run(v, {p0}=None):\n    if {p0} is None:\n        {rb}\n    return {p0}(v)\n\n\n"
       "print(run(1), run(2, {p0}=str), {g0})\n")
S14_HOLES = {"g0": ["a", "c"], "p0": ["a", "b"],
             "rb": ["def {p0}(x):\n            return x + 1", "class {p0}(int):\n            pass", "from operator import neg as {p0}"]}
# S2 indented with tabs
S2T = S2.replace("        ", "\t\t").replace("    ", "\t")

SCHEMAS = {"S14": (S14, S14_HOLES), "S2T": (S2T, S2_HOLES), "S13": (S13, S13_HOLES), "S12": (S12, S12_HOLES), "S11": (S11, S11_HOLES), "S10": (S10, S10_HOLES), "S9": (S9, S9_HOLES), "S8": (S8, S8_HOLES), "S6": (S6, S6_HOLES), "S7": (S7, S7_HOLES), "S1": (S1, S1_HOLES), "S2": (S2, S2_HOLES), "S3A": (S3A, S3A_HOLES), "S3B": (S3B, S3B_HOLES), "S3C": (S3C, S3C_HOLES),
           "S3D": (S3D, S3D_HOLES), "S3E": (S3E, S3E_HOLES), "S4": (S4, S4_HOLES), "S5": (S5, S5_HOLES)}


def expand(tmpl, holes):
    keys = list(holes)
    seen = set()
    for combo in itertools.product(*[holes[k] for k in keys]):
        env = dict(zip(keys, combo))
        # two passes so that menu items may mention other holes
        for _ in range(2):
            env = {k: v.format(**{kk: vv for kk, vv in env.items() if "{" not in vv}) if "{" in v else v for k, v in env.items()}
        if any("{" in v for v in env.values()):
            continue
        src = tmpl.format(**env)
        if src in seen:
            continue
        seen.add(src)
        yield env, src


def single_module_programs(names=None):
    """[(schema, env, source)] of valid, terminating programs."""
    out = []
    for name, (tmpl, holes) in SCHEMAS.items():
        if names and name not in names:
            continue
        for env, src in expand(tmpl, holes):
            files = {"xm.py": src}
            if compiles(files):
                continue
            out.append((name, env, src))
    return out


# ------------------------------------------------------------------------------- multi-module
LIBS = {
    "flat": {"xm.py": "def a():\n    return 'xm.a'\n\n\nclass b:\n    v = 'xm.b.v'\n\n    def w(self):\n        return 'xm.b.w'\n\n\nc = 'xm.c'\n"},
    "pkg": {"xp/__init__.py": "c = 'xp.c'\n", "xp/xm.py": "def a():\n    return 'xp.xm.a'\n\n\nclass b:\n    v = 'xp.xm.b.v'\n\n    def w(self):\n        return 'xp.xm.b.w'\n\n\nc = 'xp.xm.c'\n"},
}
STYLES = {
    "flat": [("import xm", "xm."), ("import xm as q", "q."), ("from xm import a, b, c", ""), ("from xm import a as a1, b as b1, c as c1", "@1"),
             ("from xm import *", "")],
    "pkg": [("import xp.xm", "xp.xm."), ("import xp.xm as q", "q."), ("from xp import xm", "xm."), ("from xp import xm as q", "q."),
            ("from xp.xm import a, b, c", ""), ("from xp.xm import a as a1, b as b1, c as c1", "@1"), ("from xp.xm import *", "")],
}


def client(style, local_shadow):
    stmt, prefix = style

    def ref(n):
        if prefix == "@1":
            return n + "1"
        return prefix + n
    src = stmt + "\n\n"
    if local_shadow:
        src += "def a_local(a):\n    return a\n\n\n"
    src += "print(%s(), %s.v, %s().w(), %s)\n" % (ref("a"), ref("b"), ref("b"), ref("c"))
    if local_shadow:
        src += "print(a_local(1))\n"
    return src


def multi_module_projects():
    out = []
    for layout, lib in LIBS.items():
        for si, style in enumerate(STYLES[layout]):
            for shadow in (False, True):
                files = dict(lib)
                files["xu.py"] = client(style, shadow)
                out.append(("M:%s" % layout, {"style": style[0], "shadow": shadow}, files))
    # bindings that share a definition line / a module named like one of its variables
    out.append(("M3:same-line", {}, {"xm.py": "a, b = 'xm.a', 'xm.b'\n", "xu.py": "from xm import a as b\nprint(b)\n",
                                     "xv.py": "from xm import b\nimport xm\nprint(b, xm.a, xm.b)\n"}))
    out.append(("M3:module-named-like-variable", {}, {"xm.py": "xm = 'xm.xm'\nother = 'xm.other'\n", "xu.py": "import xm\nprint(xm.xm, xm.other)\n",
                                                      "xv.py": "from xm import xm as y\nfrom xm import other\nprint(y, other)\n"}))
    # two star imports that export the same name: the later one wins
    two = {"xm.py": "def a():\n    return 'xm.a'\n\n\nc = 'xm.c'\n", "xn.py": "def a():\n    return 'xn.a'\n\n\nd = 'xn.d'\n"}
    for first, second in (("xm", "xn"), ("xn", "xm")):
        files = dict(two)
        files["xu.py"] = "from %s import *\nfrom %s import *\n\nprint(a(), c, d)\n" % (first, second)
        out.append(("M4:two-star-imports", {"order": first + "-" + second}, files))
    # two clients with different styles in one project (occurrences must be found across all of them)
    for layout, lib in LIBS.items():
        st = STYLES[layout]
        for i in range(len(st)):
            for j in range(i + 1, len(st)):
                files = dict(lib)
                files["xu.py"] = client(st[i], False)
                files["xv.py"] = client(st[j], True)
                out.append(("M2:%s" % layout, {"style": st[i][0], "style2": st[j][0]}, files))
    return out
