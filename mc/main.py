import argparse
import importlib
import json
import os
import sys

from . import core

REGISTRY = {
    "C01": "mc.checks.c01_rename", "C02": "mc.checks.c02_occurrences",
    "C03": "mc.checks.c03_extract", "C04": "mc.checks.c04_inline",
    "C05": "mc.checks.c05_move", "C06": "mc.checks.c06_signature",
    "C07": "mc.checks.c07_imports", "C08": "mc.checks.c08_patchedast",
    "C09": "mc.checks.c09_purity", "C10": "mc.checks.c10_atomic",
    "C11": "mc.checks.c11_history", "C12": "mc.checks.c12_reopen",
    "C13": "mc.checks.c13_coherence", "C14": "mc.checks.c14_textview",
    "C15": "mc.checks.c15_scopes", "C16": "mc.checks.c16_bytes",
    "C17": "mc.checks.c17_classlevel", "C18": "mc.checks.c18_crash",
    "C19": "mc.checks.c19_patterns", "C20": "mc.checks.c20_assist",
}


def load(pid):
    mod = importlib.import_module(REGISTRY[pid])
    return mod.CHECK


def main(argv=None):
    ap = argparse.ArgumentParser()
    ap.add_argument("pid")
    ap.add_argument("--tier", default=os.environ.get("VERIF_TIER", "quick"), choices=["quick", "thorough"])
    ap.add_argument("--replay")
    ap.add_argument("--triage", action="store_true")
    ap.add_argument("--limit", type=int)
    ap.add_argument("--jobs", type=int)
    a = ap.parse_args(argv)
    import warnings
    warnings.simplefilter("ignore")
    seed = int(os.environ.get("VERIF_SEED", "0") or 0)
    from . import guard
    guard.install([os.path.join(core.OUT, "evidence"), os.path.join(core.OUT, "replays"), os.environ.get("MC_DUMP")])
    if a.replay:
        a.replay = os.path.abspath(a.replay)
    # relative paths produced by the code under test must never resolve into /verif or /repo
    import atexit, shutil, tempfile
    cwd = tempfile.mkdtemp(prefix="mc_cwd_%d_" % os.getpid(), dir=core.SCRATCH)
    os.chdir(cwd)
    main_pid = os.getpid()
    atexit.register(lambda: os.getpid() == main_pid and shutil.rmtree(cwd, ignore_errors=True))
    check = load(a.pid)
    if a.triage:
        os.environ["MC_TRIAGE"] = "1"
    if a.replay:
        data = json.load(open(a.replay))
        core._init_worker(check)
        res = core._run_case(data["case"])
        if res.get("harness"):
            print("HARNESS", res["harness"])
            return 2
        fails = res.get("fails", [])
        findings = core.load_findings(a.pid)
        bad = [f for f in fails if core.explain(f, findings) is None]
        for f in fails:
            print("replayed failure: kind=%s features=%s" % (f["kind"], f.get("features")))
            print(json.dumps(f.get("detail"), indent=1, default=repr, ensure_ascii=False)[:4000])
        if bad:
            print("VIOLATION property=%s replay=%s" % (a.pid, a.replay))
            return 1
        print("replay: no unexplained failure (%d evaluations)" % res.get("n", 1))
        return 0
    return core.run_check(check, a.tier, seed, triage=a.triage, jobs=a.jobs, limit=a.limit)


if __name__ == "__main__":
    sys.exit(main())
