"""Write guard for the checking processes.

The checks run the real rope code, and they are also run against deliberately broken
versions of rope.  A broken rope may try to modify files that a project merely *refers*
to (the standard library, site-packages, /repo).  The guard installs a CPython audit
hook that vetoes every file-system mutation whose target lies outside the scratch roots,
so no tree under test -- however wrong -- can damage the machine the check runs on.
The vetoed operation raises PermissionError inside rope; the check then sees an
unexpected exception, which is reported like any other failure.

The hook is process-wide and inherited by forked workers.
"""
import os
import sys

ALLOWED = ["/dev/shm/", "/tmp/", "/verif/evidence/", "/verif/replays/", "/dev/null", "/proc/", "/dev/pts/", "/dev/tty"]

_WRITE_FLAGS = os.O_WRONLY | os.O_RDWR | os.O_CREAT | os.O_TRUNC | os.O_APPEND

_PATH_EVENTS = {
    "os.remove": (0,), "os.rmdir": (0,), "os.rename": (0, 1), "os.mkdir": (0,), "os.chmod": (0,), "os.chown": (0,),
    "os.truncate": (0,), "os.link": (0, 1), "os.symlink": (1,), "os.utime": (0,), "shutil.rmtree": (0,),
    "shutil.move": (0, 1), "shutil.copyfile": (1,), "shutil.copytree": (1,), "shutil.copymode": (1,),
    "shutil.copystat": (1,), "shutil.chown": (0,), "os.setxattr": (0,), "os.removexattr": (0,),
}

_installed = False
vetoed = []


def _norm(p):
    if isinstance(p, int) or p is None:
        return None
    try:
        p = os.fspath(p)
    except TypeError:
        return None
    if isinstance(p, bytes):
        p = p.decode("utf-8", "surrogateescape")
    if not p:
        return None
    return os.path.realpath(os.path.abspath(p))


def allowed(p):
    n = _norm(p)
    if n is None:
        return True
    for root in ALLOWED:
        if n == root.rstrip("/") or n.startswith(root):
            return True
    return False


def _veto(event, p):
    vetoed.append((event, str(p)))
    raise PermissionError("verif write guard: %s on %r is outside the scratch roots" % (event, p))


def _hook(event, args):
    if event == "open":
        path, mode, flags = (tuple(args) + (None, None, None))[:3]
        writing = False
        if isinstance(mode, str):
            writing = any(c in mode for c in "wax+")
        elif isinstance(flags, int):
            writing = bool(flags & _WRITE_FLAGS)
        if writing and not allowed(path):
            _veto(event, path)
        return
    idx = _PATH_EVENTS.get(event)
    if idx is None:
        return
    for i in idx:
        if i < len(args) and not allowed(args[i]):
            _veto(event, args[i])


def install(extra=()):
    global _installed
    for e in extra:
        if e:
            e = os.path.realpath(os.path.abspath(e))
            ALLOWED.append(e if e.endswith("/") or os.path.isfile(e) else e + "/")
            ALLOWED.append(e)
    if _installed:
        return
    _installed = True
    sys.addaudithook(_hook)
