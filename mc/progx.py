"""Common flow for refactoring checks over generated program spaces:
materialise project -> snapshot -> get_changes (must be pure) -> do -> compile -> run."""
import io
import keyword
import os
import tokenize

from rope.base import exceptions
from rope.base.project import Project

from .fsutil import DIR, Scratch, materialise, snap
from .runner import compiles, run_project


class Bench:
    def __init__(self, tag):
        self.scratch = Scratch(tag)

    def open(self, files, **prefs):
        root = self.scratch.new()
        materialise(root, {p: (s.encode("utf-8") if isinstance(s, str) else s) for p, s in files.items()})
        project = Project(root, ropefolder=None, **prefs)
        return Ctx(self, root, project, dict(files))


class Ctx:
    def __init__(self, bench, root, project, files):
        self.bench, self.root, self.project, self.files = bench, root, project, files

    def res(self, path):
        return self.project.get_resource(path)

    def tree(self):
        out = {}
        for p, v in snap(self.root).items():
            if v != DIR:
                out[p] = v.decode("utf-8", "replace")
        return out

    def close(self):
        try:
            self.project.close()
        finally:
            self.bench.scratch.drop(self.root)

    def refactor(self, make_changes, do=True):
        """Returns (status, payload): refused/internal/impure/refusal-impure/done."""
        before = snap(self.root)
        try:
            changes = make_changes(self.project)
        except exceptions.RopeError as e:
            if snap(self.root) != before:
                return "refusal-impure", repr(e)
            return "refused", type(e).__name__
        except RecursionError as e:
            return "internal", "RecursionError"
        except Exception as e:
            if snap(self.root) != before:
                return "internal+impure", "%s: %s" % (type(e).__name__, e)
            return "internal", "%s: %s" % (type(e).__name__, str(e)[:200])
        if snap(self.root) != before:
            return "impure", "get_changes modified the disk"
        if changes is None:
            return "nochange", None
        if not do:
            return "changes", changes
        try:
            self.project.do(changes)
        except exceptions.RopeError as e:
            return "do-refused", type(e).__name__
        except Exception as e:
            return "do-internal", "%s: %s" % (type(e).__name__, str(e)[:200])
        return "done", changes


def judge(files_before, files_after, entries=None, base=None):
    """Compile + behaviour comparison. Returns (kind or None, detail)."""
    bad = compiles(files_after)
    if bad:
        return "syntax-error", {"file": bad[0], "message": bad[1]}
    if base is None:
        base = run_project(files_before, entries)
    ents = entries
    got = run_project(files_after, ents) if ents is not None else None
    if got is None:
        got = run_project(files_after, None)
    return None, (base, got)


def name_tokens(src):
    """[(start_offset, end_offset, text)] of identifier tokens that are not keywords."""
    out = []
    lines = src.splitlines(True)
    starts = [0]
    for l in lines:
        starts.append(starts[-1] + len(l))
    try:
        for tok in tokenize.generate_tokens(io.StringIO(src).readline):
            if tok.type == tokenize.NAME and not keyword.iskeyword(tok.string):
                s = starts[tok.start[0] - 1] + tok.start[1]
                out.append((s, s + len(tok.string), tok.string))
    except (tokenize.TokenError, IndentationError, SyntaxError):
        pass
    return out


def nth_offset(src, needle, n=0):
    i = -1
    for _ in range(n + 1):
        i = src.index(needle, i + 1)
    return i
