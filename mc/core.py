"""Core of the bounded-exhaustive explorer: case distribution, verdicts, known findings,
replay artefacts and evidence.  A *check* enumerates a finite space of cases (pure function
of the tier) and evaluates each one on the real rope implementation inside a worker process.

Result protocol (returned by Check.run(case)) -- a dict with any of:
  n        : number of evaluations performed for this case (default 1)
  nt       : list of short keys of DISTINCT non-trivial evaluations (counted as a set globally)
  out      : {outcome-class: count}
  mech     : {mechanism-tag: count}
  refused  : number of evaluations rope refused with its own error type
  fails    : [ {kind, features, detail, size} ]      property failures
  states   : [state-hash]  (sequence checks)     trans : number of transitions executed
  traces   : number of complete operation sequences replayed on the implementation
  passfeat : [[features]]  (only when MC_TRIAGE=1)
  harness  : "message"  -> the machinery itself is unsound for this case (exit 2)
"""
import hashlib
import json
import multiprocessing as mp
import os
import random
import signal
import sys
import time
import traceback
from collections import Counter

VERIF = os.path.dirname(os.path.dirname(os.path.abspath(__file__)))
# evidence/ and replays/ are written under OUT: /verif itself, except when a seeded change is being
# tried (tools/seed.py), whose output must not overwrite the evidence of the real tree
OUT = os.environ.get("VERIF_OUT") or VERIF
SCRATCH = "/dev/shm" if os.path.isdir("/dev/shm") else "/tmp"


def h8(obj):
    if not isinstance(obj, (str, bytes)):
        obj = json.dumps(obj, sort_keys=True, default=repr)
    if isinstance(obj, str):
        obj = obj.encode("utf-8", "surrogatepass")
    return hashlib.blake2b(obj, digest_size=8).hexdigest()


class Check:
    pid = "C00"
    level = "exploration"
    rule = ""
    assumptions = []
    floor_nontrivial = 2          # vacuity guard (R7)
    budget_quick = 300
    budget_thorough = 3000
    chunksize = 4

    def cases(self, tier):
        raise NotImplementedError

    def setup_worker(self):
        pass

    def run(self, case):
        raise NotImplementedError

    def selftest(self):
        """Return a list of harness problems (empty = sound). Run once in the parent."""
        return []

    def extra_coverage(self, tier):
        return {}


# ------------------------------------------------------------------------------------
# worker side
_CHECK = None


class CaseTimeout(BaseException):
    pass


def _alarm(signum, frame):
    raise CaseTimeout()


def _init_worker(check):
    global _CHECK
    _CHECK = check
    import warnings
    warnings.simplefilter("ignore")
    signal.signal(signal.SIGALRM, _alarm)
    sys.setrecursionlimit(3000)
    check.setup_worker()


def _run_case(case):
    t0 = time.time()
    try:
        signal.setitimer(signal.ITIMER_REAL, getattr(_CHECK, "case_timeout", 120))
        try:
            res = _CHECK.run(case)
        finally:
            signal.setitimer(signal.ITIMER_REAL, 0)
    except CaseTimeout:
        res = {"n": 1, "fails": [{"kind": "timeout", "features": ["timeout"],
                                   "detail": {"case": case}, "size": 0}]}
    except BaseException as e:  # a crash of the harness itself, never a verdict
        res = {"n": 0, "harness": "%s: %s\n%s" % (type(e).__name__, e, traceback.format_exc()[-1500:]),
               "case": case}
    res["t"] = time.time() - t0
    return res


# ------------------------------------------------------------------------------------
def load_findings(pid):
    path = os.path.join(VERIF, "known_findings.json")
    if not os.path.exists(path):
        return []
    data = json.load(open(path))
    return [f for f in data.get("findings", []) if f.get("property") == pid]


def explain(fail, findings):
    feats = set(fail.get("features", []))
    for f in findings:
        if f.get("status", "known") != "known":
            continue
        kinds = f.get("kinds") or [f.get("kind")]
        if fail["kind"] not in kinds and "*" not in kinds:
            continue
        if "cases" in f:
            if fail.get("key") in f["cases"]:
                return f
            continue
        trig = f.get("trigger", [])
        alts = trig if trig and isinstance(trig[0], list) else [trig]
        for t in alts:
            if set(t) <= feats:
                return f
    return None


def write_replay(pid, fail):
    d = os.path.join(OUT, "replays", pid)
    os.makedirs(d, exist_ok=True)
    name = h8(fail)
    path = os.path.join(d, name + ".json")
    with open(path, "w") as fh:
        json.dump({"property": pid, "kind": fail["kind"], "features": fail.get("features", []),
                   "detail": fail.get("detail", {}), "case": fail.get("case")}, fh, indent=1,
                  default=repr, ensure_ascii=False)
    return path


def run_check(check, tier, seed, triage=False, jobs=None, limit=None):
    t0 = time.time()
    pid = check.pid
    budget = float(os.environ.get("VERIF_BUDGET_S", check.budget_quick if tier == "quick" else check.budget_thorough))
    jobs = jobs or int(os.environ.get("VERIF_JOBS", min(16, os.cpu_count() or 4)))
    findings = load_findings(pid)

    problems = check.selftest()
    if problems:
        print("HARNESS selftest failed for %s:" % pid)
        for p in problems[:10]:
            print("  ", p)
        return 2

    cases = list(check.cases(tier))
    if limit:
        cases = cases[:limit]
    total_cases = len(cases)
    # The seed permutes only the order in which batches are handed to workers and which
    # samples are shown; the set of cases, and therefore the verdict, does not depend on it.
    rnd = random.Random(seed)
    order = list(range(total_cases))
    blocks = [order[i:i + 64] for i in range(0, total_cases, 64)]
    rnd.shuffle(blocks)
    order = [i for b in blocks for i in b]

    agg = dict(n=0, refused=0, trans=0, traces=0)
    nt = set()
    states = set()
    out = Counter()
    mech = Counter()
    fails = []
    passfeat = []
    harness = []
    samples = []
    sample_idx = set(rnd.sample(range(total_cases), min(3, total_cases))) if total_cases else set()
    done_cases = 0
    capped = False
    slow = []

    ctx = mp.get_context("fork")
    pool = ctx.Pool(jobs, initializer=_init_worker, initargs=(check,))
    worker_pids = set()
    try:
        it = pool.imap(_run_case, (cases[i] for i in order), chunksize=check.chunksize)
        for k, res in enumerate(it):
            done_cases += 1
            if res.get("harness"):
                harness.append((res.get("case"), res["harness"]))
                if len(harness) > 20:
                    break
                continue
            agg["n"] += res.get("n", 1)
            agg["refused"] += res.get("refused", 0)
            agg["trans"] += res.get("trans", 0)
            agg["traces"] += res.get("traces", 0)
            nt.update(res.get("nt", ()))
            states.update(res.get("states", ()))
            out.update(res.get("out", {}))
            mech.update(res.get("mech", {}))
            for f in res.get("fails", ()):
                f.setdefault("case", cases[order[k]])
                f.setdefault("key", h8(f.get("detail", f["case"])))
                fails.append(f)
            if triage:
                passfeat.extend(res.get("passfeat", ()))
            if order[k] in sample_idx:
                samples.append(res.get("sample", cases[order[k]]))
            if res["t"] > 20:
                slow.append((round(res["t"], 1), cases[order[k]]))
            if time.time() - t0 > budget:
                capped = True
                break
    finally:
        worker_pids.update(p.pid for p in getattr(pool, "_pool", []))
        pool.terminate()
        pool.join()
        # terminated workers never run their atexit handlers: sweep their scratch directories
        import re as _re
        import shutil as _sh
        for name in os.listdir(SCRATCH):
            m = _re.match(r"mc_[A-Za-z0-9]+_(\d+)_", name)
            if m and int(m.group(1)) in worker_pids:
                _sh.rmtree(os.path.join(SCRATCH, name), ignore_errors=True)

    if harness:
        print("HARNESS error in %s (%d cases):" % (pid, len(harness)))
        for c, msg in harness[:3]:
            print("  case:", json.dumps(c, default=repr)[:300])
            print("  ", msg)
        return 2

    # verdicts
    known_hit = Counter()
    unexplained = []
    for f in fails:
        e = explain(f, findings)
        if e is not None:
            known_hit[e["id"]] += 1
        else:
            unexplained.append(f)
    unexplained.sort(key=lambda f: (f.get("size", 0), json.dumps(f.get("case"), default=repr)))

    exhaustive = (not capped) and done_cases == total_cases and not limit
    cov = {
        "evaluations": agg["n"],
        "distinct_nontrivial": len(nt),
        "rule": check.rule,
        "samples": samples[:3] or cases[:1],
        "cases_enumerated": total_cases,
        "cases_completed": done_cases,
        "refused_by_rope": agg["refused"],
        "distinct_outcomes": len(out),
        "outcomes": dict(out.most_common(40)),
        "mechanism_hits": dict(mech),
        "known_finding_hits": dict(known_hit),
        "violations_unexplained": len(unexplained),
        "exhaustive": exhaustive,
        "bound": check.bound_text(tier) if hasattr(check, "bound_text") else tier,
        "workers": jobs,
    }
    if capped:
        cov["cap_hit"] = "wall-clock budget %.0fs; %d of %d cases completed" % (budget, done_cases, total_cases)
    if states or agg["trans"]:
        cov["states"] = len(states)
        cov["transitions"] = agg["trans"]
        cov["traces_validated_against_impl"] = agg["traces"]
    cov.update(check.extra_coverage(tier))
    ev = {
        "property_id": pid, "tier": tier, "seed": seed, "level": check.level,
        "coverage": cov, "assumptions": list(check.assumptions),
        "wall_s": round(time.time() - t0, 2), "violations": len(unexplained),
    }
    os.makedirs(os.path.join(OUT, "evidence"), exist_ok=True)
    with open(os.path.join(OUT, "evidence", pid + ".json"), "w") as fh:
        json.dump(ev, fh, indent=1, default=repr, ensure_ascii=False)

    print("%s tier=%s seed=%d cases=%d/%d evaluations=%d nontrivial=%d refused=%d outcomes=%d states=%d transitions=%d wall=%.1fs%s"
          % (pid, tier, seed, done_cases, total_cases, agg["n"], len(nt), agg["refused"], len(out),
             len(states), agg["trans"], time.time() - t0, " CAPPED" if capped else ""))
    if mech:
        print("  mechanisms:", dict(mech))
    if slow:
        print("  slow cases:", slow[:3])
    for f in findings:
        if f.get("status", "known") == "known" and known_hit.get(f["id"]):
            print("KNOWN-FINDING: property=%s %s %s (%d cases)" % (pid, f["id"], f.get("what", ""), known_hit[f["id"]]))

    if os.environ.get("MC_DUMP"):
        with open(os.environ["MC_DUMP"], "w") as fh:
            for f in unexplained:
                fh.write(json.dumps(f, default=repr, ensure_ascii=False) + "\n")
    if triage:
        from . import triage as tr
        tr.report(pid, fails, passfeat, findings)

    if len(nt) < check.floor_nontrivial and not limit:
        print("HARNESS vacuity: only %d non-trivial cases in %s" % (len(nt), pid))
        return 2

    if unexplained:
        shown = 0
        byk = Counter(f["kind"] for f in unexplained)
        print("  unexplained failures by kind:", dict(byk))
        seen_kinds = set()
        for f in unexplained:
            if f["kind"] in seen_kinds and shown >= 5:
                continue
            seen_kinds.add(f["kind"])
            path = write_replay(pid, f)
            print("VIOLATION property=%s replay=%s" % (pid, path))
            print("   kind=%s features=%s" % (f["kind"], f.get("features", [])[:12]))
            shown += 1
            if shown >= 8:
                break
        return 1
    return 0
