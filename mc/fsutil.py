"""File-system side of the sequence explorer: scratch projects on tmpfs, snapshots, the
dictionary reference model of a directory tree, fault injection and the logical clock."""
import os
import shutil
import tempfile

from rope.base import fscommands

from .core import SCRATCH

DIR = "<DIR>"


def snap(root, skip=(".ropeproject",), mtime=False):
    """{relative path: bytes | DIR} for everything below root."""
    out = {}
    for d, ds, fs in os.walk(root):
        ds[:] = sorted(x for x in ds if x not in skip or d != root)
        for n in ds:
            out[os.path.relpath(os.path.join(d, n), root)] = DIR
        for n in sorted(fs):
            p = os.path.join(d, n)
            with open(p, "rb") as fh:
                data = fh.read()
            out[os.path.relpath(p, root)] = (data, os.stat(p).st_mtime_ns) if mtime else data
    return out


def show(snapshot):
    return {k: (v if v == DIR else (v.decode("utf-8", "replace") if isinstance(v, bytes) else repr(v)))
            for k, v in sorted(snapshot.items())}


def materialise(root, tree):
    for p in sorted(tree):
        full = os.path.join(root, p)
        if tree[p] == DIR:
            os.makedirs(full, exist_ok=True)
        else:
            os.makedirs(os.path.dirname(full), exist_ok=True)
            data = tree[p]
            with open(full, "wb") as fh:
                fh.write(data if isinstance(data, bytes) else data.encode("utf-8"))


class Scratch:
    """One scratch directory per worker; sub-directories per case, removed after use."""

    def __init__(self, tag):
        self.base = tempfile.mkdtemp(prefix="mc_%s_%d_" % (tag, os.getpid()), dir=SCRATCH)
        self.n = 0
        import atexit
        atexit.register(shutil.rmtree, self.base, True)

    def new(self, tree=None):
        self.n += 1
        d = os.path.join(self.base, "p%d" % self.n)
        os.mkdir(d)
        if tree:
            materialise(d, tree)
        return d

    def drop(self, d):
        shutil.rmtree(d, ignore_errors=True)


class TreeModel:
    """Reference model of a project tree: dict path -> bytes | DIR.  Implementation-only
    failures are left out; `enabled_*` say when an operation is defined."""

    def __init__(self, tree=None):
        self.t = dict(tree or {})

    def copy(self):
        return TreeModel(self.t)

    def parent_ok(self, p):
        d = os.path.dirname(p)
        return d == "" or self.t.get(d) == DIR

    def exists(self, p):
        return p in self.t

    def is_dir(self, p):
        return self.t.get(p) == DIR

    def is_file(self, p):
        return p in self.t and self.t[p] != DIR

    def create_file(self, p):
        assert not self.exists(p) and self.parent_ok(p)
        self.t[p] = b""

    def create_folder(self, p):
        assert not self.exists(p) and self.parent_ok(p)
        self.t[p] = DIR

    def write(self, p, data):
        assert self.is_file(p)
        self.t[p] = data

    def move(self, a, b):
        assert self.exists(a) and not self.exists(b) and self.parent_ok(b)
        assert not (b + "/").startswith(a + "/")
        for k in [k for k in self.t if k == a or k.startswith(a + "/")]:
            self.t[b + k[len(a):]] = self.t.pop(k)

    def remove(self, p):
        assert self.exists(p)
        for k in [k for k in self.t if k == p or k.startswith(p + "/")]:
            del self.t[k]


class InjectedFault(OSError):
    pass


class FaultFS(fscommands.FileSystemCommands):
    """Counts mutating commands; command number `fail_at` raises *instead of* being performed
    (fault model: a failing command has no effect).  Reads never fail.  `clock` (optional)
    stamps every written/created file with a logical time so (mtime,size) indicators are
    deterministic."""

    def __init__(self, fail_at=0, clock=None):
        self.n = 0
        self.fail_at = fail_at
        self.fired = False
        self.log = []
        self.clock = clock

    def arm(self, fail_at):
        self.n = 0
        self.fail_at = fail_at
        self.fired = False
        self.log = []

    def _tick(self, what):
        self.n += 1
        self.log.append(what)
        if self.n == self.fail_at:
            self.fired = True
            raise InjectedFault("injected fault at fs command %d (%s)" % (self.n, what[0]))

    def _stamp(self, path):
        if self.clock is not None:
            self.clock.stamp(path)

    def create_file(self, path):
        self._tick(("create_file", path))
        super().create_file(path)
        self._stamp(path)

    def create_folder(self, path):
        self._tick(("create_folder", path))
        super().create_folder(path)

    def move(self, path, new_location):
        self._tick(("move", path, new_location))
        super().move(path, new_location)

    def remove(self, path):
        self._tick(("remove", path))
        super().remove(path)

    def write(self, path, data):
        self._tick(("write", path))
        super().write(path, data)
        self._stamp(path)


class Clock:
    """Logical clock for file timestamps (R3): one tick per stamped write."""

    def __init__(self, start=1_000_000_000):
        self.now = start

    def stamp(self, path):
        self.now += 7
        os.utime(path, (self.now, self.now))
