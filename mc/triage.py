"""Developer-only: cluster failing cases by small feature sets that separate them from passing
cases (how known-finding triggers are authored).  Not part of any verdict."""
import itertools
import json
from collections import Counter, defaultdict

from .core import explain


def report(pid, fails, passfeat, findings, maxk=3, top=25):
    fails = [f for f in fails if explain(f, findings) is None]
    print("=== triage %s: %d unexplained failures, %d passing feature sets" % (pid, len(fails), len(passfeat)))
    if not fails:
        return
    bykind = defaultdict(list)
    for f in fails:
        bykind[f["kind"]].append(f)
    passsets = [frozenset(p) for p in passfeat]
    for kind, fl in sorted(bykind.items(), key=lambda kv: -len(kv[1])):
        print("--- kind=%s n=%d" % (kind, len(fl)))
        remaining = list(fl)
        rounds = 0
        while remaining and rounds < top:
            rounds += 1
            cnt = Counter()
            for f in remaining:
                fs = sorted(set(f.get("features", [])))
                for k in range(1, maxk + 1):
                    if len(fs) > 40 and k == 3:
                        continue
                    for c in itertools.combinations(fs, k):
                        cnt[c] += 1
            best = None
            for c, n in cnt.most_common(4000):
                cs = set(c)
                pw = sum(1 for p in passsets if cs <= p)
                prec = n / (n + pw)
                score = (round(prec, 2) >= 0.98, n * prec * prec, -len(c))
                if best is None or score > best[0]:
                    best = (score, c, n, pw)
            if best is None:
                break
            _, c, n, pw = best
            ex = min((f for f in remaining if set(c) <= set(f.get("features", []))), key=lambda f: f.get("size", 0))
            print("  trigger=%s  fails=%d passes_with_trigger=%d" % (json.dumps(list(c)), n, pw))
            print("     example:", json.dumps(ex.get("detail"), default=repr, ensure_ascii=False)[:700])
            remaining = [f for f in remaining if not set(c) <= set(f.get("features", []))]
        if remaining:
            print("  ... %d failures not clustered" % len(remaining))
