"""Reference binder: which definition does every identifier token refer to?

Lexical part: the naming-and-binding rules of the language reference applied to `ast`
(scope kinds module/function/lambda/class/comprehension; binding constructs; global and
nonlocal; class scopes skipped by inner lookups; first comprehension iterable, defaults,
decorators, bases evaluated in the enclosing scope; walrus inside a comprehension binds in the
enclosing function).  It is not trusted on its own: `check_against_symtable` compares every
scope's classification with CPython's compiler (symtable), with the documented PEP 709
adjustment.  On top of that, project-level rules the compiler does not express: import
transparency, module attributes, class attributes reached through the class name / self / a
variable assigned once from a constructor call, keyword arguments of statically known callees.
Everything else is tagged dynamic (binding None) and is never used as ground truth."""
import ast
import io
import keyword
import symtable
import tokenize

COMP = (ast.ListComp, ast.SetComp, ast.DictComp, ast.GeneratorExp)


class Scope:
    def __init__(self, node, parent, kind, name=None):
        self.node, self.parent, self.kind, self.name = node, parent, kind, name
        self.bound = {}        # name -> set of roles
        self.globals_ = set()
        self.nonlocals = set()
        self.children = []
        self.uses = set()
        if parent is not None:
            parent.children.append(self)

    @property
    def lineno(self):
        return getattr(self.node, "lineno", 0)

    def path(self):
        p = self.parent.path() if self.parent else ()
        return p + ((self.kind, self.name, self.lineno, getattr(self.node, "col_offset", 0)),)

    def root(self):
        s = self
        while s.parent is not None:
            s = s.parent
        return s

    def all(self):
        yield self
        for c in self.children:
            yield from c.all()


class Occ:
    """One identifier occurrence in the AST: position + how it is to be resolved."""
    __slots__ = ("lineno", "col", "name", "role", "scope", "node", "extra")

    def __init__(self, lineno, col, name, role, scope, node=None, extra=None):
        self.lineno, self.col, self.name, self.role, self.scope, self.node, self.extra = lineno, col, name, role, scope, node, extra


class Builder(ast.NodeVisitor):
    def __init__(self, tree):
        self.root = Scope(tree, None, "module")
        self.cur = self.root
        self.scope_of = {id(tree): self.root}
        self.occs = []
        for s in tree.body:
            self.visit(s)

    def bind(self, name, role, scope=None):
        sc = scope or self.cur
        if role == "walrus":
            while sc.kind == "comp":
                sc = sc.parent
        sc.bound.setdefault(name, set()).add(role)
        return sc

    def push(self, node, kind, name=None):
        sc = Scope(node, self.cur, kind, name)
        self.scope_of[id(node)] = sc
        self.cur = sc
        return sc

    def pop(self):
        self.cur = self.cur.parent

    # ---- names
    def visit_Name(self, n):
        if isinstance(n.ctx, ast.Load):
            self.cur.uses.add(n.id)
            self.occs.append(Occ(n.lineno, n.col_offset, n.id, "use", self.cur, n))
        else:
            role = "store" if isinstance(n.ctx, ast.Store) else "del"
            sc = self.bind(n.id, role)
            self.occs.append(Occ(n.lineno, n.col_offset, n.id, role, sc, n))

    def visit_NamedExpr(self, n):
        self.visit(n.value)
        sc = self.bind(n.target.id, "walrus")
        self.occs.append(Occ(n.target.lineno, n.target.col_offset, n.target.id, "store", sc, n.target))

    def visit_Attribute(self, n):
        self.visit(n.value)
        self.occs.append(Occ(n.end_lineno, n.end_col_offset - len(n.attr), n.attr, "attr", self.cur, n))

    def _args_outer(self, a):
        for d in a.defaults + [k for k in a.kw_defaults if k is not None]:
            self.visit(d)
        for x in a.posonlyargs + a.args + a.kwonlyargs + ([a.vararg] if a.vararg else []) + ([a.kwarg] if a.kwarg else []):
            if x.annotation:
                self.visit(x.annotation)

    def _bind_args(self, a):
        for kind, xs in (("posonly", a.posonlyargs), ("arg", a.args), ("vararg", [a.vararg] if a.vararg else []),
                         ("kwonly", a.kwonlyargs), ("kwarg", [a.kwarg] if a.kwarg else [])):
            for x in xs:
                self.bind(x.arg, "param:" + kind)
                self.occs.append(Occ(x.lineno, x.col_offset, x.arg, "param", self.cur, x))

    def visit_FunctionDef(self, n):
        for d in n.decorator_list:
            self.visit(d)
        self._args_outer(n.args)
        if n.returns:
            self.visit(n.returns)
        sc = self.bind(n.name, "def")
        self.occs.append(Occ(n.lineno, None, n.name, "defname", sc, n))
        self.push(n, "function", n.name)
        self._bind_args(n.args)
        for s in n.body:
            self.visit(s)
        self.pop()

    visit_AsyncFunctionDef = visit_FunctionDef

    def visit_Lambda(self, n):
        self._args_outer(n.args)
        self.push(n, "lambda", "lambda")
        self._bind_args(n.args)
        self.visit(n.body)
        self.pop()

    def visit_ClassDef(self, n):
        for d in n.decorator_list + n.bases:
            self.visit(d)
        for k in n.keywords:
            self.visit(k.value)
        sc = self.bind(n.name, "class")
        self.occs.append(Occ(n.lineno, None, n.name, "defname", sc, n))
        self.push(n, "class", n.name)
        for s in n.body:
            self.visit(s)
        self.pop()

    def _comp(self, n, elts):
        gens = n.generators
        self.visit(gens[0].iter)
        self.push(n, "comp", type(n).__name__)
        for i, g in enumerate(gens):
            if i:
                self.visit(g.iter)
            self.visit(g.target)
            for c in g.ifs:
                self.visit(c)
        for e in elts:
            self.visit(e)
        self.pop()

    def visit_ListComp(self, n):
        self._comp(n, [n.elt])

    visit_SetComp = visit_GeneratorExp = visit_ListComp

    def visit_DictComp(self, n):
        self._comp(n, [n.key, n.value])

    def visit_Global(self, n):
        for x in n.names:
            self.cur.globals_.add(x)
            self.occs.append(Occ(n.lineno, None, x, "global-decl", self.cur, n))

    def visit_Nonlocal(self, n):
        for x in n.names:
            self.cur.nonlocals.add(x)
            self.occs.append(Occ(n.lineno, None, x, "nonlocal-decl", self.cur, n))

    def visit_Import(self, n):
        for a in n.names:
            local = a.asname or a.name.split(".")[0]
            sc = self.bind(local, "import")
            self.occs.append(Occ(n.lineno, None, a.name, "import", sc, n, a))

    def visit_ImportFrom(self, n):
        for a in n.names:
            if a.name != "*":
                sc = self.bind(a.asname or a.name, "import")
                self.occs.append(Occ(n.lineno, None, a.name, "importfrom", sc, n, a))
            else:
                self.occs.append(Occ(n.lineno, None, "*", "importstar", self.cur, n, a))

    def visit_ExceptHandler(self, n):
        if n.type:
            self.visit(n.type)
        if n.name:
            sc = self.bind(n.name, "except")
            self.occs.append(Occ(n.lineno, None, n.name, "exceptname", sc, n))
        for s in n.body:
            self.visit(s)

    def visit_MatchAs(self, n):
        if n.pattern:
            self.visit(n.pattern)
        if n.name:
            sc = self.bind(n.name, "match")
            self.occs.append(Occ(n.lineno, None, n.name, "matchname", sc, n))

    def visit_MatchStar(self, n):
        if n.name:
            sc = self.bind(n.name, "match")
            self.occs.append(Occ(n.lineno, None, n.name, "matchname", sc, n))

    def visit_MatchMapping(self, n):
        for k in n.keys:
            self.visit(k)
        for p in n.patterns:
            self.visit(p)
        if n.rest:
            sc = self.bind(n.rest, "match")
            self.occs.append(Occ(n.lineno, None, n.rest, "matchname", sc, n))

    def visit_MatchClass(self, n):
        self.visit(n.cls)
        for p in n.patterns + n.kwd_patterns:
            self.visit(p)

    def visit_TypeAlias(self, n):
        sc = self.bind(n.name.id, "type")
        self.occs.append(Occ(n.name.lineno, n.name.col_offset, n.name.id, "store", sc, n.name))

    def visit_keyword(self, n):
        self.visit(n.value)

    def visit_Call(self, n):
        self.visit(n.func)
        for a in n.args:
            self.visit(a)
        for k in n.keywords:
            self.visit(k.value)
            if k.arg is not None:
                self.occs.append(Occ(k.lineno, k.col_offset, k.arg, "kwarg", self.cur, n, k))


def resolve(scope, name):
    """Scope whose binding `name`, used in `scope`, refers to (None = builtin / unbound)."""
    s = scope
    root = scope.root()
    first = True
    while s is not None:
        if first or s.kind != "class":
            if name in s.globals_:
                return root
            if name in s.nonlocals:
                t = s.parent
                while t is not None:
                    if t.kind in ("function", "lambda", "comp") and name in t.bound and name not in t.globals_ and name not in t.nonlocals:
                        return t
                    t = t.parent
                return None
            if name in s.bound:
                return s
        first = False
        s = s.parent
    return None


def owner_scope(scope, name):
    """Where a *binding* occurrence recorded in `scope` really lives (global/nonlocal redirect)."""
    if name in scope.globals_:
        return scope.root()
    if name in scope.nonlocals:
        return resolve(scope, name)
    return scope


def build(src):
    tree = ast.parse(src)
    return tree, Builder(tree)


# ----------------------------------------------------------------------------- symtable cross-check
def _sym_children(tab):
    """Child tables that correspond to real scopes; annotation / type-parameter pseudo scopes are looked through."""
    out = []
    for c in tab.get_children():
        t = str(c.get_type()).lower()
        if any(w in t for w in ("annotation", "type_alias", "type alias", "type_param", "type param", "typevar", "type_var")):
            out += _sym_children(c)
        else:
            out.append(c)
    return out


def check_against_symtable(src):
    """Return a list of disagreements between the binder and CPython's symbol tables."""
    tree, b = build(src)
    top = symtable.symtable(src, "<binder>", "exec")
    problems = []

    def inlined(sc):
        """comprehension scopes that PEP 709 inlines into sc's table (list/set/dict comps, not in class bodies)"""
        out = []
        for c in sc.children:
            if c.kind == "comp" and not isinstance(c.node, ast.GeneratorExp):
                out.append(c)
                out += inlined(c)
        return out

    def walk(sc, tab):
        inl = inlined(sc)
        # symtable children: real child scopes in source order (inlined comps have no table)
        kids = [c for c in sc.children if c not in inl]
        extra_kids = []
        for c in inl:
            extra_kids += [k for k in c.children if k not in inl]
        allkids = sorted(kids + extra_kids, key=lambda c: (c.lineno, getattr(c.node, "col_offset", 0)))
        tabs = _sym_children(tab)
        if len(tabs) != len(allkids):
            problems.append(("scope-count", sc.path(), [t.get_name() for t in tabs], [c.name for c in allkids]))
            return
        mine_local = {n for n in sc.bound if n not in sc.globals_ and n not in sc.nonlocals}
        comp_names = set()
        for c in inl:
            # an inlined comprehension variable that the enclosing scope declares global/nonlocal keeps that
            # classification in the merged table (CPython isolates it at run time by save/restore)
            comp_names |= {n for n in c.bound if n not in c.globals_ and n not in c.nonlocals
                           and n not in sc.globals_ and n not in sc.nonlocals}
        sym_local = set()
        for s in tab.get_symbols():
            nm = s.get_name()
            if nm.startswith(".") or nm.startswith("__class"):
                continue
            if sc.kind == "module":
                if s.is_assigned() or s.is_imported() or s.is_namespace() or s.is_parameter():
                    sym_local.add(nm)
            elif s.is_local() and (s.is_assigned() or s.is_parameter() or s.is_imported() or s.is_namespace()):
                sym_local.add(nm)
        if sc.kind == "module":
            # names declared global and bound in inner scopes are module bindings for symtable too only if bound there
            mine = set(sc.bound)
            cn = set()
            for c in inl:
                cn |= set(c.bound)
            walrus_only = {n for n, roles in sc.bound.items() if roles == {"walrus"}}
            if not (mine - walrus_only <= sym_local and sym_local <= mine | cn | {n for c in sc.all() for n in c.bound if n in c.globals_}):
                problems.append(("module-locals", sc.path(), sorted(mine), sorted(sym_local)))
        else:
            # variables of inlined comprehensions are listed as locals of the enclosing table unless the same name
            # is also used there as a global/free name or the table is a class body: both outcomes are accepted
            if not (mine_local <= sym_local <= mine_local | comp_names):
                problems.append(("locals", sc.path(), sorted(mine_local), sorted(sym_local)))
        # free / global classification of uses
        for s in tab.get_symbols():
            nm = s.get_name()
            if nm.startswith(".") or sc.kind == "module":
                continue
            if any(nm in c.bound for c in inl):
                continue     # merged with an inlined comprehension's variable: classification is ambiguous
            if nm in sc.uses or any(nm in c.uses for c in inl):
                target = resolve(sc, nm)
                shadowed = False
                for c in inl:
                    if nm in c.bound:
                        target = c
                        shadowed = nm in sc.globals_ or nm in sc.nonlocals
                if shadowed:
                    continue
                if s.is_free():
                    if target is None or target.kind == "module" or target is sc:
                        problems.append(("free-mismatch", sc.path(), nm, None if target is None else target.path()))
                elif s.is_global():
                    if target is not None and target.kind != "module":
                        problems.append(("global-mismatch", sc.path(), nm, target.path()))
        for c, t in zip(allkids, tabs):
            walk(c, t)

    walk(b.root, top)
    return problems


# ----------------------------------------------------------------------------- token level
def name_token_positions(src):
    """[(lineno, col, string, start_offset)] for identifier tokens (keywords excluded), columns in characters."""
    out = []
    lines = src.splitlines(True)
    starts = [0]
    for l in lines:
        starts.append(starts[-1] + len(l))
    for tok in tokenize.generate_tokens(io.StringIO(src).readline):
        if tok.type == tokenize.NAME and not keyword.iskeyword(tok.string):
            out.append((tok.start[0], tok.start[1], tok.string, starts[tok.start[0] - 1] + tok.start[1]))
    return out


def char_col(line, bytecol):
    return len(line.encode("utf-8")[:bytecol].decode("utf-8", "replace"))


class ModuleBinding:
    """Token-level result for one module: tokens[i] = (start, end, name, key) where key identifies the
    binding (hashable) or is None for dynamic / out-of-project / builtin references."""

    def __init__(self, path, src):
        self.path, self.src = path, src
        self.tree, self.b = build(src)
        self.lines = src.splitlines(True)
        self.toks = name_token_positions(src)
        self.by_pos = {(l, c): (off, s) for l, c, s, off in self.toks}
        self.tokens = []

    def offset(self, lineno, bytecol):
        line = self.lines[lineno - 1]
        return (lineno, char_col(line, bytecol))

    def find_token_after(self, lineno, name, after_col=0, end_lineno=None):
        for l, c, s, off in self.toks:
            if (l > lineno or (l == lineno and c >= after_col)) and s == name and (end_lineno is None or l <= end_lineno):
                return (l, c)
        return None


# ----------------------------------------------------------------------------- project level
def _modname(path):
    parts = path[:-3].split("/")
    if parts[-1] == "__init__":
        parts = parts[:-1]
    return ".".join(parts)


class ProjectBinding:
    """keys: ("lex", path, scope_path, name) for lexical / attribute bindings, ("mod", dotted) for modules.
    tokens[path] = list of (start, end, name, key-or-None)."""

    def __init__(self, files):
        self.files = {p: s for p, s in files.items() if p.endswith(".py")}
        self.mods = {p: ModuleBinding(p, s) for p, s in self.files.items()}
        self.by_name = {_modname(p): p for p in self.files}
        self.tokens = {}
        self.alias = {}      # lexical key -> canonical key (import transparency)
        for p in sorted(self.mods):
            self._imports(self.mods[p])
        for p in sorted(self.mods):
            self.tokens[p] = self._tokens(self.mods[p])

    # -- helpers
    def lexkey(self, path, scope, name):
        k = ("lex", path, scope.path(), name)
        seen = set()
        while k in self.alias and k not in seen:
            seen.add(k)
            k = self.alias[k]
        return k

    def module_scope(self, dotted):
        p = self.by_name.get(dotted)
        return (p, self.mods[p].b.root) if p else (None, None)

    def _abs_module(self, m, node):
        """Dotted name of the module an ImportFrom refers to (None if outside the project)."""
        if node.level == 0:
            return node.module
        pkg = _modname(m.path).split(".")
        if not m.path.endswith("__init__.py"):
            pkg = pkg[:-1]
        up = node.level - 1
        if up > len(pkg):
            return None
        base = pkg[:len(pkg) - up] if up else pkg
        return ".".join(base + ([node.module] if node.module else []))

    def _imports(self, m):
        for o in m.b.occs:
            if o.role == "import" and o.extra.asname is None:
                top = o.extra.name.split(".")[0]
                if top in self.by_name:
                    self.alias[("lex", m.path, o.scope.path(), top)] = ("mod", top)
            if o.role == "importfrom":
                a, node = o.extra, o.node
                dotted = self._abs_module(m, node)
                local = a.asname or a.name
                if dotted is None:
                    continue
                # from pkg import submodule
                sub = dotted + "." + a.name if dotted else a.name
                tp, troot = self.module_scope(dotted)
                if troot is not None and a.name in troot.bound and a.asname is None:
                    self.alias[("lex", m.path, o.scope.path(), local)] = ("lex", tp, troot.path(), a.name)
                elif sub in self.by_name and a.asname is None and not (troot is not None and a.name in troot.bound):
                    self.alias[("lex", m.path, o.scope.path(), local)] = ("mod", sub)

    def static_value(self, m, scope, node):
        """What a Name/Attribute expression statically denotes: ("mod", dotted) | ("class", path, scope) | ("instance", path, scope) | None"""
        if isinstance(node, ast.Name):
            tgt = resolve(scope, node.id)
            if tgt is None:
                return None
            return self._denotes(m.path, tgt, node.id)
        if isinstance(node, ast.Attribute):
            base = self.static_value(m, scope, node.value)
            if base is None:
                return None
            if base[0] == "mod":
                sub = base[1] + "." + node.attr
                p, root = self.module_scope(base[1])
                if root is not None and node.attr in root.bound:
                    return self._denotes(p, root, node.attr)
                if sub in self.by_name:
                    return ("mod", sub)
            return None
        return None

    def _denotes(self, path, scope, name, depth=0):
        key = self.lexkey(path, scope, name)
        if key[0] == "mod":
            return key
        _, p, spath, nm = key
        mm = self.mods[p]
        sc = [s for s in mm.b.root.all() if s.path() == spath][0]
        roles = sc.bound.get(nm, set())
        if roles == {"class"}:
            cls = [c for c in sc.children if c.kind == "class" and c.name == nm]
            if len(cls) == 1:
                return ("class", p, cls[0])
        if roles == {"def"}:
            fn = [c for c in sc.children if c.kind == "function" and c.name == nm]
            if len(fn) == 1:
                return ("func", p, fn[0])
        if roles == {"import"}:
            # plain `import m` / `import m as n` / `from p import m as n`
            for o in mm.b.occs:
                if o.role == "import" and o.scope is sc:
                    a = o.extra
                    local = a.asname or a.name.split(".")[0]
                    if local == nm:
                        dotted = a.name if a.asname else a.name.split(".")[0]
                        if dotted in self.by_name:
                            return ("mod", dotted)
                if o.role == "importfrom" and o.scope is sc and (o.extra.asname or o.extra.name) == nm:
                    dotted = self._abs_module(mm, o.node)
                    if dotted is not None:
                        sub = dotted + "." + o.extra.name
                        tp, troot = self.module_scope(dotted)
                        if troot is not None and o.extra.name in troot.bound and depth < 5:
                            return self._denotes(tp, troot, o.extra.name, depth + 1)
                        if sub in self.by_name:
                            return ("mod", sub)
        if roles == {"store"} and depth < 3:
            # a variable assigned exactly once from a constructor call of a project class
            assigns = [n for n in ast.walk(sc.node) if isinstance(n, ast.Assign) and len(n.targets) == 1 and isinstance(n.targets[0], ast.Name)
                       and n.targets[0].id == nm and mm.b.scope_of.get(id(sc.node)) is sc]
            stores = [o for o in mm.b.occs if o.role == "store" and o.name == nm and o.scope is sc]
            if len(assigns) == 1 and len(stores) == 1 and isinstance(assigns[0].value, ast.Call):
                callee = self.static_value(mm, sc, assigns[0].value.func)
                if callee is not None and callee[0] == "class":
                    return ("instance", callee[1], callee[2])
        return None

    def class_attr_key(self, path, cls_scope, attr):
        mm = self.mods[path]
        node = cls_scope.node
        if node.bases or node.keywords or node.decorator_list:
            return None
        defined = attr in cls_scope.bound
        if not defined:
            for fn in cls_scope.children:
                if fn.kind == "function" and fn.node.args.args:
                    selfname = fn.node.args.args[0].arg
                    for n in ast.walk(fn.node):
                        if isinstance(n, ast.Attribute) and isinstance(n.ctx, ast.Store) and isinstance(n.value, ast.Name) and n.value.id == selfname and n.attr == attr:
                            defined = True
        if not defined:
            return None
        return ("lex", path, cls_scope.path(), attr)

    def _tokens(self, m):
        keyat = {}
        b = m.b

        def put(pos, name, key):
            if pos is not None and pos in m.by_pos and m.by_pos[pos][1] == name:
                keyat[pos] = key

        def header_token(o, after_kw):
            # NAME token following `def` / `class` / `as` ... on the node's header
            n = o.node
            end = n.body[0].lineno if getattr(n, "body", None) else n.lineno
            return m.find_token_after(n.lineno, o.name, 0, end)

        for o in b.occs:
            if o.role in ("use", "store", "del", "param"):
                pos = m.offset(o.lineno, o.col)
                if o.role == "use":
                    tgt = resolve(o.scope, o.name)
                    if tgt is None:
                        key = None
                    elif o.scope.kind == "class" and o.name in o.scope.bound and tgt is o.scope:
                        key = self.lexkey(m.path, tgt, o.name) if self._class_name_is_static(o) else None
                    else:
                        key = self.lexkey(m.path, tgt, o.name)
                else:
                    own = owner_scope(o.scope, o.name)
                    key = self.lexkey(m.path, own, o.name) if own is not None else None
                put(pos, o.name, key)
            elif o.role in ("defname", "exceptname", "matchname"):
                pos = header_token(o, None)
                own = owner_scope(o.scope, o.name)
                put(pos, o.name, self.lexkey(m.path, own, o.name) if own is not None else None)
            elif o.role in ("global-decl", "nonlocal-decl"):
                pos = m.find_token_after(o.node.lineno, o.name, 0, o.node.end_lineno)
                own = owner_scope(o.scope, o.name)
                put(pos, o.name, self.lexkey(m.path, own, o.name) if own is not None else None)
            elif o.role == "import":
                a, node = o.extra, o.node
                parts = a.name.split(".")
                col = 0
                for i, part in enumerate(parts):
                    pos = m.find_token_after(node.lineno, part, col, node.end_lineno)
                    dotted = ".".join(parts[:i + 1])
                    if pos:
                        put(pos, part, ("mod", dotted) if dotted in self.by_name else None)
                        col = pos[1] + 1 if pos[0] == node.lineno else 0
                if a.asname:
                    pos = self._find_as(m, node, a.asname)
                    put(pos, a.asname, self.lexkey(m.path, o.scope, a.asname))
            elif o.role == "importfrom":
                a, node = o.extra, o.node
                dotted = self._abs_module(m, node)
                # module path tokens
                if node.module:
                    parts = node.module.split(".")
                    prefix = dotted.split(".")[:-len(parts)] if dotted else []
                    col = 0
                    for i, part in enumerate(parts):
                        pos = m.find_token_after(node.lineno, part, col, node.end_lineno)
                        full = ".".join(prefix + parts[:i + 1]) if dotted else None
                        if pos:
                            put(pos, part, ("mod", full) if full in self.by_name else None)
                            col = pos[1] + 1
                # imported name: the token after `import`
                pos = self._find_imported(m, node, a.name)
                key = None
                if dotted is not None:
                    tp, troot = self.module_scope(dotted)
                    sub = dotted + "." + a.name
                    if troot is not None and a.name in troot.bound:
                        key = self.lexkey(tp, troot, a.name)
                    elif sub in self.by_name:
                        key = ("mod", sub)
                if key is None and a.asname is None:
                    key = self.lexkey(m.path, o.scope, a.name)
                put(pos, a.name, key)
                if a.asname:
                    put(self._find_as(m, node, a.asname), a.asname, self.lexkey(m.path, o.scope, a.asname))
            elif o.role == "attr":
                n = o.node
                pos = m.offset(n.end_lineno, n.end_col_offset - len(n.attr.encode("utf-8")))
                base = self.static_value(m, o.scope, n.value)
                key = None
                if base is not None:
                    if base[0] == "mod":
                        p, root = self.module_scope(base[1])
                        sub = base[1] + "." + n.attr
                        if root is not None and n.attr in root.bound:
                            key = self.lexkey(p, root, n.attr)
                        elif sub in self.by_name:
                            key = ("mod", sub)
                    elif base[0] in ("class", "instance"):
                        key = self.class_attr_key(base[1], base[2], n.attr)
                elif isinstance(n.value, ast.Name):
                    # self.attr inside a method defined directly in a class body
                    sc = o.scope
                    while sc is not None and sc.kind in ("comp", "lambda"):
                        sc = sc.parent
                    if sc is not None and sc.kind == "function" and sc.parent is not None and sc.parent.kind == "class" and sc.node.args.args \
                            and sc.node.args.args[0].arg == n.value.id and resolve(o.scope, n.value.id) is sc \
                            and not any(d for d in sc.node.decorator_list):
                        key = self.class_attr_key(m.path, sc.parent, n.attr)
                put(pos, n.attr, key)
            elif o.role == "kwarg":
                k = o.extra
                pos = m.offset(k.lineno, k.col_offset)
                callee = self.static_value(m, o.scope, o.node.func)
                key = None
                if callee is not None and callee[0] == "func":
                    fn = callee[2]
                    if k.arg in fn.bound and any(r.startswith("param") for r in fn.bound[k.arg]) and not fn.node.args.kwarg:
                        key = self.lexkey(callee[1], fn, k.arg)
                elif callee is not None and callee[0] == "class":
                    init = [c for c in callee[2].children if c.kind == "function" and c.name == "__init__"]
                    if len(init) == 1 and k.arg in init[0].bound and not init[0].node.args.kwarg:
                        key = self.lexkey(callee[1], init[0], k.arg)
                put(pos, k.arg, key)
        out = []
        for l, c, s, off in m.toks:
            out.append((off, off + len(s), s, keyat.get((l, c), "untracked")))
        return out

    def _class_name_is_static(self, o):
        return False

    def _find_as(self, m, node, asname):
        toks = [(l, c, s) for l, c, s, off in m.toks if node.lineno <= l <= node.end_lineno]
        # identifier tokens of an import statement: `as` is a keyword (not listed); the alias is the token equal to
        # asname that is not part of a dotted module path -> take the last occurrence
        cands = [(l, c) for l, c, s in toks if s == asname]
        return cands[-1] if cands else None

    def _find_imported(self, m, node, name):
        # first token equal to `name` after the `import` keyword of a from-import
        src_lines = m.lines
        imp_line, imp_col = None, None
        for ln in range(node.lineno, node.end_lineno + 1):
            i = src_lines[ln - 1].find("import ")
            if i >= 0:
                imp_line, imp_col = ln, i + 6
                break
        if imp_line is None:
            return None
        return m.find_token_after(imp_line, name, imp_col, node.end_lineno)

    def classes(self):
        """{key: sorted list of (path, start, end)} for statically determined bindings."""
        out = {}
        for p, toks in self.tokens.items():
            for s, e, name, key in toks:
                if key is not None and key != "untracked":
                    out.setdefault(key, []).append((p, s, e))
        return {k: sorted(v) for k, v in out.items()}
