"""Symbolic history operations applied to a real rope Project through its public API
(shared by C12, C13, C18)."""
from rope.base import change

TEXTS = {
    "v1": "def f(x):\n    return x\n\n\nclass K:\n    def m(self):\n        return 1\n\n\nv = f(K())\nw = f(1)\n",
    "v2": "def f(x, y=2):\n    return [x, y]\n\n\nclass K:\n    attr = 'é€'\n\n\nv = f(K(), 3)\n",
    "uni": "# -*- coding: utf-8 -*-\ns = 'ünï€ 你'\n\n\ndef g():\n    return s\n",
    "crlf": "a = 1\r\nb = 2\r\n",
    "empty": "",
    "nonl": "x = 1\ny = 2",
}


def view_change(c):
    """Plain-data view of a Change through public attributes (time stamps left out)."""
    n = type(c).__name__
    if isinstance(c, change.ChangeSet):
        return ("set", c.description, [view_change(x) for x in c.changes])
    if isinstance(c, change.ChangeContents):
        return ("contents", c.resource.path, c.new_contents, c.old_contents)
    if isinstance(c, change.MoveResource):
        return ("move", c.resource.path, c.new_resource.path, c.resource.is_folder(), c.new_resource.is_folder())
    if isinstance(c, change.CreateResource):
        return ("create", c.resource.path, c.resource.is_folder())
    if isinstance(c, change.RemoveResource):
        return ("remove", c.resource.path, c.resource.is_folder())
    return (n,)


def view_history(project):
    h = project.history
    return ([view_change(c) for c in h.undo_list], [view_change(c) for c in h.redo_list])


def view_objectdb(project):
    """Stored object information as plain data, through the ObjectDB / FileDict / ScopeInfo
    interfaces; returns None when the interface is not there (then nothing is compared)."""
    try:
        odb = project.pycore.object_info.objectdb
        out = {}
        for path in sorted(odb.get_files()):
            scopes = {}
            for key in sorted(odb.files[path], key=repr):
                infos = odb.get_callinfos(path, key)
                scopes[repr(key)] = sorted(repr((ci.get_parameters(), ci.get_returned())) for ci in infos)
            out[path] = scopes
        return out
    except AttributeError:
        return None


def apply_op(project, op, label):
    """Apply one symbolic op; returns nothing, raises what rope raises."""
    k = op[0]
    p = project
    if k == "W":
        cs = change.ChangeSet(label)
        cs.add_change(change.ChangeContents(p.get_file(op[1]), TEXTS.get(op[2], op[2])))
        p.do(cs)
    elif k == "CF":
        cs = change.ChangeSet(label)
        cs.add_change(change.CreateFile(p.get_folder(op[1]) if op[1] else p.root, op[2]))
        p.do(cs)
    elif k == "CD":
        cs = change.ChangeSet(label)
        cs.add_change(change.CreateFolder(p.get_folder(op[1]) if op[1] else p.root, op[2]))
        p.do(cs)
    elif k == "MV":
        res = p.get_resource(op[1])
        cs = change.ChangeSet(label)
        cs.add_change(change.MoveResource(res, op[2], exact=True))
        p.do(cs)
    elif k == "RM":
        cs = change.ChangeSet(label)
        cs.add_change(change.RemoveResource(p.get_resource(op[1])))
        p.do(cs)
    elif k == "SET":   # nested change set: ("SET", [ops...]) of W/CF/CD/MV primitives built up-front
        cs = change.ChangeSet(label)
        inner = change.ChangeSet(label + "-inner")
        for i, o in enumerate(op[1]):
            tgt = inner if i else cs
            if o[0] == "W":
                tgt.add_change(change.ChangeContents(p.get_file(o[1]), TEXTS.get(o[2], o[2])))
            elif o[0] == "CF":
                tgt.add_change(change.CreateFile(p.get_folder(o[1]) if o[1] else p.root, o[2]))
            elif o[0] == "CD":
                tgt.add_change(change.CreateFolder(p.get_folder(o[1]) if o[1] else p.root, o[2]))
        cs.add_change(inner)
        p.do(cs)
    elif k == "undo":
        p.history.undo()
    elif k == "undo_drop":
        p.history.undo(drop=True)
    elif k == "redo":
        p.history.redo()
    elif k == "undo_sel":
        p.history.undo(change=p.history.undo_list[op[1]])
    elif k == "redo_sel":
        p.history.redo(change=p.history.redo_list[op[1]])
    elif k == "sync":
        project.sync()
    elif k == "analyze":
        p.pycore.analyze_module(p.get_file(op[1]))
    else:
        raise ValueError(op)
