"""In-process execution of small generated projects given as {relative path: source}.

A private meta-path finder serves exactly the project's modules (packages and relative imports
included); module names are expected to come from a reserved namespace (x*, never a real
module).  Each entry module is imported fresh (all project modules purged before and after),
stdout is captured, and the result is (stdout, exception type name or None).  UnboundLocalError
is reported as NameError (its base class): the language treats an unbound local and an unbound
global as the same failure, and moving a statement between a function and a module body changes
nothing else."""
import contextlib
import importlib.abc
import importlib.util
import io
import signal
import sys


class ProgramTimeout(BaseException):
    pass


class _Finder(importlib.abc.MetaPathFinder, importlib.abc.Loader):
    def __init__(self, files):
        self.files = files
        self.mods = {}
        for path in files:
            if not path.endswith(".py"):
                continue
            parts = path[:-3].split("/")
            if parts[-1] == "__init__":
                self.mods[".".join(parts[:-1])] = (path, True)
            else:
                self.mods[".".join(parts)] = (path, False)
        # namespace-less folders are not packages: only folders with __init__ are importable

    def find_spec(self, fullname, path=None, target=None):
        if fullname in self.mods:
            p, ispkg = self.mods[fullname]
            spec = importlib.util.spec_from_loader(fullname, self, origin="<mc>/" + p, is_package=ispkg)
            if ispkg:
                spec.submodule_search_locations = ["<mc>/" + p.rsplit("/", 1)[0]]
            return spec
        return None

    def create_module(self, spec):
        return None

    def exec_module(self, module):
        p, _ = self.mods[module.__name__]
        code = compile(self.files[p], "<mc>/" + p, "exec", dont_inherit=True)
        exec(code, module.__dict__)

    def get_source(self, fullname):
        return self.files[self.mods[fullname][0]]


def _purge(finder):
    for name in list(sys.modules):
        root = name.split(".")[0]
        if name in finder.mods or any(m.split(".")[0] == root for m in finder.mods):
            del sys.modules[name]


def _on_alarm(signum, frame):
    raise ProgramTimeout()


def run_entry(files, entry, budget=2.0):
    """Import `entry` (dotted module name) from the project; returns (stdout, exc_type_name)."""
    finder = _Finder(files)
    out = io.StringIO()
    exc = None
    old_handler = signal.getsignal(signal.SIGALRM)
    remaining, _ = signal.getitimer(signal.ITIMER_REAL)
    _purge(finder)
    sys.meta_path.insert(0, finder)
    try:
        signal.signal(signal.SIGALRM, _on_alarm)
        signal.setitimer(signal.ITIMER_REAL, budget)
        try:
            with contextlib.redirect_stdout(out):
                importlib.import_module(entry)
        except ProgramTimeout:
            exc = "Timeout"
        except BaseException as e:
            exc = type(e).__name__
            if exc == "UnboundLocalError":
                exc = "NameError"
            if exc == "ModuleNotFoundError":
                exc = "ImportError"
        finally:
            signal.setitimer(signal.ITIMER_REAL, 0)
    finally:
        sys.meta_path.remove(finder)
        _purge(finder)
        signal.signal(signal.SIGALRM, old_handler)
        if remaining > 0:
            signal.setitimer(signal.ITIMER_REAL, max(0.05, remaining - 0.001))
    return out.getvalue(), exc


def run_project(files, entries=None, budget=2.0):
    """{entry: (stdout, exc)} for every entry (default: every module of the project)."""
    finder = _Finder(files)
    if entries is None:
        entries = sorted(finder.mods)
    return {e: run_entry(files, e, budget) for e in entries}


def compiles(files):
    """Returns None or (path, message) of the first module that does not compile."""
    for p in sorted(files):
        if p.endswith(".py"):
            try:
                compile(files[p], p, "exec", dont_inherit=True)
            except (SyntaxError, ValueError) as e:
                return p, "%s: %s" % (type(e).__name__, e)
    return None
