#!/usr/bin/env python3
"""Regenerate /verif/MANIFEST.json from the table below (run: python3 tools/gen_manifest.py)."""
import json
import os

HERE = os.path.dirname(os.path.dirname(os.path.abspath(__file__)))
ALL = ["C%02d" % i for i in range(1, 21)]

# pid -> (level, technique, text, note, design_ref)
CLAIMED = {
    "C10": ("fault_enumeration",
            "exhaustive fault/interruption-point enumeration over all composites up to length 3 (4 thorough) on the real ChangeSet/History code",
            "Every composite change enabled in a dictionary model of the tree (26 sub-change alphabet, also with a full undo list, incl. a move into a missing folder and creations over existing targets, which the file system refuses so that the composite fails by itself, nested variants, three real refactoring change sets) is executed on the real implementation once per deviation: a fault at every mutating fs command and a stop() at every task-handle notification, during do (also after the change was previewed with get_description()), undo and redo; a stop at any notification but the very last must be reported; after each, the tree snapshot, the identity of the history lists and a fault-free retry are checked.",
            "fault model: failing command raises and has no effect; one deviation per execution; rollback runs fault-free; bounded alphabet and length", "3/C10"),
    "C11": ("model_checking",
            "explicit-state exploration of all do/undo/redo/selective/drop histories to depth 4 (5-6 thorough) on the real History, against a dictionary reference model",
            "A state is the event history reaching it; every enabled sequence of do (23 change shapes incl. a content change that switches LF to CRLF, an empty change set, a change in a sibling folder with a prefix name, change sets touching ignored files), undo, redo, undo(change=i), redo(change=i), undo(drop=True) for history limits {0,1,2,32} is replayed on a fresh real Project and its last step is compared with a reference model (tree, both lists, returned changes, limit, refusal on empty) and with the property's declarative oracle (base snapshot + remaining changes replayed).",
            "reference model and dependency closure written independently (dict + lists); bounded depth/alphabet; every transition is an implementation step, so traces_validated_against_impl = sequences explored", "3/C11"),
    "C18": ("fault_enumeration",
            "exhaustive crash-point enumeration: every program-order prefix (byte-granular) of the save's real system-call effect log, each reopened with the real code",
            "For each history scenario the real Project.close()/sync() runs once under strace; the ordered effects on the rope folder (open/truncate, write, rename, unlink, tracked per inode) are the ground truth. Every prefix of that list, with every byte prefix of every write, is materialised and the project is reopened: opening, project.history, the object db and module analysis must not raise and history/objectdb must each equal the complete old or the complete new version (or be empty); two follow-up sessions on every crash state (one that changes the project, one that only analyses and saves) must leave a complete history too; in addition the save is interrupted in-process by KeyboardInterrupt at every write call (unwinding death) and the project reopened.",
            "process-death crash model (program-order prefixes of what reached the OS); strace log is trusted and the harness exits 2 if replaying all effects does not reproduce the real final rope folder", "3/C18"),
    "C12": ("model_checking",
            "differential explicit-state exploration: every history to depth 3 (4 thorough) replayed on the real code with and without close/reopen at every position; exhaustive serializer round trip over all values up to a node bound",
            "Every feasible sequence of 22 operations (incl. one path used as a file and later as a folder, an explicit sync(), a change that touches only an ignored file) is executed on the real implementation straight through and again with close()+reopen inserted at each position (thorough: each pair), then driven through undo-all/redo-all and selective undo/redo probes; the two runs must agree observation by observation (history lists with contents, tree after every probe step, stored object info across the reopen). All nested values with <=5 (6) nodes over a collision-prone atom alphabet are round-tripped through JSON text for both serializer versions with type-exact comparison.",
            "differential oracle: the run without reopen is the reference; bounded depth and value size; time stamps not compared", "3/C12"),
    "C16": ("exploration",
            "bounded-exhaustive enumeration of file contents x newline convention x encoding declaration x edit, executed on the real File/ChangeContents/Rename code with independently computed expected bytes",
            "All texts of <=2 (3) lines over 9 character-class atoms x {LF,CRLF,CR} x final newline x 10 encoding declarations x 3 cookie forms x 8 cookie placements (incl. after a first line of more than 300 characters or an empty one) are written as raw bytes; through rope each is written back unchanged, edited line by line, renamed, undone, re-edited after its newline convention changed behind rope's back, rewritten with a text that declares another encoding (+undo), and written to a new file; one-line texts also through a file-system commands object without read(); every resulting byte string is compared with bytes computed from the line list.",
            "expected bytes computed independently of rope's codec/newline code; mixed newlines and unencodable contents excluded by the property", "3/C16"),
    "C13": ("model_checking",
            "explicit-state exploration of mutation/external-edit/query histories to depth 3 (4-5 thorough) on one long-lived real Project, differential against a brand-new Project after every sequence",
            "Every enabled sequence over 37 events (18 mutations through rope incl. removal of a package folder whose name is a prefix of a sibling's, an edit of a module two packages deep, moves across the default ignore pattern, 9 changes behind rope's back + validate() (incl. two edits of a package __init__), 8 cache-warming queries incl. the scope names of a star-importing module) is replayed on a long-lived real Project with an observing AutoImport index; then files, python files, find_module, per-module source/names/scope name table/lookups/definition locations/inferred types and attribute sets, package contents, find_occurrences and the AutoImport index are compared with a brand-new Project (fresh index) on the same directory.",
            "the fresh project is the reference; time stamps owned by a logical clock; AutoImport indexes filled with update_resource (no process pool); bounded depth and alphabet", "3/C13"),
    "C03": ("exploration",
            "bounded-exhaustive enumeration of (function body, region, options) with CPython execution before/after as the oracle",
            "All bodies of <=2 (3) statements over 25 data-flow atoms (incl. compound statements written on one line) in a function host, a method host, module-level hosts (inside a loop and directly in the module body) and a class whose classmethod/staticmethod/regular sibling methods repeat the body x every contiguous statement run at every nesting level and every sub-expression x ExtractMethod/ExtractVariable x similar/global_/kind options are refactored with the real code; each performed result is compiled and executed for inputs 0,1,2 and must print what the original printed; refusals must leave the disk unchanged.",
            "behaviour is compared on the enumerated inputs only; bounded body length and atom alphabet", "3/C03"),
    "C04": ("exploration",
            "bounded-exhaustive enumeration of (definition shape, call-site list, host, query point, options) with CPython execution before/after as the oracle",
            "4 signatures x 5 body shapes x 3 hosts (defining module, `import`, `from import`) x every list of 1-2 (3) call sites (every positional/keyword/default passing shape x 4 argument forms x 6 contexts incl. a continuation line) x query at the definition or at each call site x remove/only_current are inlined with the real code, plus InlineVariable, InlineParameter and inline-method spaces and 288 cases where the inlined body depends on imports/globals of its module and the destination module already has similar imports (prefix-named module, alias, same from-import) or clashing names, functions with import statements of their own and positional-only parameters with defaults; every performed result is compiled and all modules are run before/after.",
            "behaviour = stdout + exception type of importing every module; bounded shapes", "3/C04"),
    "C06": ("exploration",
            "bounded-exhaustive enumeration of (signature, callable kind, call shapes, host, changer sequence); bodies print their locals and CPython runs before/after; expected output derived structurally",
            "8 signature shapes (defaults, *args, **kw) x 6 callable kinds (function, method on a name, method on an attribute chain, classmethod on the class and on an instance, constructor) x 3 hosts x every valid call shape (positional/keyword/default/*seq/extra positional/extra keyword) at 1-2 sites x every single changer incl. permutations of a proper prefix (thorough: ordered pairs), with the def header on one line or wrapped one parameter per line, in modules that also contain `yield from` / `raise ... from` before the calls and imports after them, go through the real ChangeSignature; every function body prints its sorted locals and the result must equal the recorded output with the removed name dropped / the added name bound. IntroduceParameter: 5 function kinds x 7 signatures x 8 expression kinds x 4 body shapes x 3 new names, behaviour compared before/after.",
            "argument values are constants; expected bindings derived from the recorded run; a request whose resulting signature is illegal must be refused", "3/C06"),
    "C07": ("exploration",
            "bounded-exhaustive enumeration of (import block, usage pattern, target location, action, preferences) with CPython execution of the module and of a star-importing client before/after, plus idempotence",
            "Import blocks of <=2 (3) statements over 37 forms (plain, dotted, aliased, from, multi-name, parenthesised, star, relative at two levels, __future__, a package next to an aliased import of its sub-module, two providers of one name, prefix-named modules, a chained star import, a package __init__ importing its own sub-modules) x per-statement usage (unused, module level, in a function, only in __all__, class keyword, base class, default argument, decorator, base of an assigned attribute) x target in the project root / a package / a sub-package x the 5 ImportOrganizer actions x preference sets are run through the real code; the target module and a client must print the same, and applying the action again must change nothing.",
            "library modules define uniquely valued names; re-exports are protected only when listed in __all__; bounded block size", "3/C07"),
    "C05": ("exploration",
            "bounded-exhaustive enumeration of (move/rename operation, client location, client import block) with CPython importing every module before/after",
            "22 operations (MoveGlobal of a function/class/variable to 4 destinations, MoveModule of modules and a package into/out of packages, Rename of module/package/sub-package, ModuleToPackage) x client in the root / a package / a sub-package x every single import style of the moved thing, every ordered pair of styles and every style next to an unrelated import of the destination package are performed with the real code; afterwards every module must import and each client must print what it printed before. In addition: MoveMethod on 29 method shapes (parameter kinds, uses of self / the destination attribute / module globals / imports, names used only in the def header) x 7 destination classes (4 locations; bodies that are a lone `pass`, `pass  # comment`, or start with the letters pass) x 3 new names x use in the same or another module, and 4 operations (ModuleToPackage, MoveModule to the root / to the parent package, Rename) on a nested module that carries every single and ordered pair of 9 relative/absolute imports of its own; a destination module whose last name equals a package module's; a module named like its package.",
            "definitions carry unique values; the moved function calls a sibling helper and an imported module so lost dependencies show", "3/C05"),
    "C17": ("exploration",
            "bounded-exhaustive enumeration of target/usage shapes for EncapsulateField, IntroduceFactory, MethodObject, LocalToField and UseFunction with CPython execution before/after",
            "Five generated spaces (field read/write/augmented/chained/conditional/subclass uses x hosts x file endings x query point; constructor call shapes x nested/top-level class/class inside a module-level if or try block x hosts x global/static factory; 8 function/method shapes incl. nested class, closure, first/last method; every local of a method incl. locals read in nested functions and lambdas; function bodies (multi-line, one-line, ending a file without newline) re-occurring with other names in 1-2 places and near misses (equal literal of another type, other value, other operator) x hosts) are refactored with the real code; every performed result is compiled and every module run before/after.",
            "behaviour = stdout + exception type of importing every module; bounded shapes", "3/C17"),
    "C01": ("exploration",
            "bounded-exhaustive enumeration of (program from scoping schemas, identifier token) with CPython execution and a symtable-validated reference binder as oracles",
            "Every program of 19 single-module scoping schemas (incl. a parameter rebound by a nested def/class/import of its name, header expressions spanning several lines, decorator arguments, non-ASCII and soft-keyword receiver names, nonlocal through three nested functions, comprehensions in a class body, a tab-indented class) and 59 multi-module projects (incl. two star imports exporting one name) (full product of two-name menus) and 57 multi-module projects x every identifier token with a statically known in-project binding is renamed to a fresh name with the real Rename; the result must compile, every module must print the same, and the reference binder's token partition before/after must be in bijection.",
            "reference binder validated against CPython's symtable on every program (exit 2 on disagreement); tokens it cannot bind statically are not judged; dunder names are not renamed", "3/C01"),
    "C02": ("exploration",
            "bounded-exhaustive enumeration of (program, binding class, query token) with a symtable-validated reference binder as the two-sided oracle",
            "For every program of the scoping schemas and every binding class (multi-module projects a second time on the same long-lived project after their library modules were edited through rope) of the reference binder, find_occurrences is asked at EVERY token of the class and must return exactly the class (nothing missing, nothing of another static binding, nothing inside strings/comments), and Rename.get_changes must alter exactly those tokens.",
            "reference binder = language rules over ast + import transparency + statically known attributes/keyword arguments, validated against symtable per program; dynamic tokens are neither required nor forbidden", "3/C02"),
    "C15": ("exploration",
            "bounded-exhaustive enumeration of binding constructs x scope chains, rope's scopes/name tables/lookups compared with a reference binder that is validated against CPython's symtable on every program",
            "70 binding atoms (incl. starred targets, walrus values, comprehensions in every statement position, multi-line statements, dedented comments) x 19 function/class nesting chains (depth 3, incl. @property/@staticmethod methods) x outer-binding variations (uniform and independent per level) x 10 parameter kinds; per program: scope tree with line extents, owned names per scope, lookup() of every read name from its scope, holding scope per physical body line (continuation lines included) and by offset at every comprehension variable.",
            "binder vs symtable agreement is a precondition (HARNESS otherwise); lambda scopes not compared; PEP 709 inlining accounted for", "3/C15"),
    "C14": ("exploration",
            "bounded-exhaustive enumeration of texts (statement templates x literal/expression atoms, one and two statements) x every offset and line, compared with CPython's tokenize and ast",
            "Texts from 22 statement templates x 53 atoms (all string prefixes and quote styles, escapes, f-strings with nesting, number spellings, unicode identifiers and receivers, soft keywords used as names, keywords glued to literals, continuations, bracketed line breaks, semicolons, tabs, form feed and the other str.splitlines separators in strings/comments/lines) are fed to simplify.ignored_regions/real_code, SourceLinesAdapter, logical_lines and Worder; every offset / line / identifier character is compared with the tokenizer's tokens, NEWLINE-delimited logical lines and the ast attribute chains.",
            "tokenize/ast of CPython 3.12 are the reference; identifier tokens inside f-string fields not used for Worder checks", "3/C14"),
    "C08": ("exploration",
            "bounded-exhaustive enumeration of grammar constructs composed to depth 2 x layout deviations, with CPython's ast positions and re-parsing as oracles",
            "86 expression atoms x 10 expression contexts, 28 simple statements x every atom, 28 compound statements x every simple statement as body, each with 0 or 1 of 13 layout deviations (incl. comment lines that quote the following code, form feed lines and strings containing line-separator characters), are annotated with get_patched_ast; checked per module: annotation succeeds, write_ast reproduces the text, every positioned node has a region, regions nest, region text equals the interpreter's segment up to redundant parentheses, region re-parses to the same node.",
            "CPython 3.12 positions are the reference; regions may include redundant parentheses/blanks and a definition's decorators", "3/C08"),
    "C19": ("exploration",
            "bounded-exhaustive enumeration of (module, pattern abstracted from the module's own code, region, goal) against a reference AST matcher/transformer",
            "For 9 modules (incl. runs of equal statements, comments quoting the code, semicolon-joined statements, a one-line if), plus the bare-wildcard pattern,, every distinct expression and statement run is turned into patterns by abstracting every subset of <=2 sub-expressions into wildcards (shared wildcards for equal sub-trees); SimilarFinder.get_matches over the whole module and over every statement span must report exactly the reference matcher's instances with equal bindings, and restructure.replace / Restructure with 4 expression goals and a multi-line statement goal (one- and two-statement patterns, overlapping windows taken greedily) must parse to the reference AST transformation (goal == pattern leaves the tree unchanged).",
            "reference matcher: structural ast equality ignoring expression context, written independently (60 lines); matches identified by interpreter positions", "3/C19"),
    "C20": ("exploration",
            "bounded-exhaustive enumeration of (module, every character offset, line-truncation variant, settings) with the symtable-validated reference binder as the oracle for visibility and definition lines",
            "For 456 modules of 14 scoping schemas, code_assist is called at every character offset on the intact module and on the module with the rest of the current line deleted, for maxfixes {1,3} x later_locals {T,F}; no exception other than RopeError may escape, every proposal extends the typed prefix, and on judged positions the offered module identifiers equal the names visible there per the binder (two-sided on the intact module); get_definition_location and findit.find_definition at every identifier token must give a binding line (or the exact binding token) of the reference binding.",
            "binder validated against symtable per module; positions inside strings, comments, def/class/import/global lines and comprehension/lambda interiors are not judged for completeness", "3/C20"),
    "C09": ("exploration",
            "bounded-exhaustive enumeration of (project configuration, refactoring kind, every identifier offset, resources= restriction) with full snapshots of the project root and a sibling out-of-project folder before/after get_changes and do",
            "21 refactoring kinds (incl. MoveMethod to an attribute whose class lives outside the project / in an ignored module) are requested at every identifier token of every module of 5 projects (plain; a symbolic link to a file in a sibling directory; names imported from a sibling folder on python_path; ignored resources given by name and by a `//` pattern and imported by a normal module; a module with a syntax error), with resources= None / [this file] / [another file]; get_changes (or its refusal) must leave both trees byte- and mtime-identical, any exception must be a RopeError, and after do only announced, in-project, non-ignored resources may differ and the description must contain the real diff.",
            "snapshots compare path set, kinds, bytes, mtimes; ignored files carried along by the announced move of their non-ignored folder are accepted", "3/C09"),
}

PENDING_REASON = "check not built yet in this session (see DESIGN.md section 8 build order); nothing is claimed for it"


def main():
    checks = []
    for pid in ALL:
        if pid not in CLAIMED:
            continue
        level, technique, text, note, ref = CLAIMED[pid]
        checks.append({
            "property_id": pid,
            "quick_cmd": "./check %s --tier quick" % pid,
            "thorough_cmd": "./check %s --tier thorough" % pid,
            "evidence_file": "/verif/evidence/%s.json" % pid,
            "replay_cmd_template": "./check %s --replay {path}" % pid,
            "engine": "mc",
            "level_claimed": {"category": level, "text": text, "design_ref": "DESIGN.md " + ref},
            "level_note": note,
            "technique": technique,
        })
    man = {
        "version": 1,
        "setup_cmd": "mkdir -p /verif/evidence /verif/replays && /venv/bin/python -c 'import rope, sys; print(rope.VERSION)'",
        "hooks": {
            "guard": "ROPE_VERIF",
            "enable": "no source hooks are needed: faults enter through Project(fscommands=...), crash states are materialised from a recorded write log, everything else is observed at the public API",
            "baseline_off_cmd": "cd /repo && /venv/bin/python -m pytest -ra -q -p no:cacheprovider --timeout=900 --continue-on-collection-errors",
            "source_commits": [],
            "add_only": True,
        },
        "engines": [{"name": "mc", "path": "/verif/mc", "serves_properties": sorted(CLAIMED),
                     "kind_free_text": "hand-written bounded-exhaustive explorer: stateless enumeration of operation sequences / program spaces / fault and crash points, executed on the real rope implementation in 16 worker processes, compared with reference models and CPython"}],
        "checks": checks,
        "not_applicable": [{"property_id": p, "reason": PENDING_REASON} for p in ALL if p not in CLAIMED],
        "notes": "All checks import rope from /repo's working tree (PYTHONPATH=/repo). Known findings: /verif/known_findings.json. Seeded property-breaking changes: /verif/seeded/.",
    }
    with open(os.path.join(HERE, "MANIFEST.json"), "w") as fh:
        json.dump(man, fh, indent=1)
    print("wrote MANIFEST.json with", len(checks), "checks")


if __name__ == "__main__":
    main()
