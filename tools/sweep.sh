#!/bin/bash
# run every quick check on the current tree with a given seed; print one line per check
cd /verif
SEED=${1:-0}
for i in 01 02 03 04 05 06 07 08 09 10 11 12 13 14 15 16 17 18 19 20; do
  start=$(date +%s)
  out=$(VERIF_SEED=$SEED ./check C$i --tier quick 2>&1)
  rc=$?
  end=$(date +%s)
  viol=$(echo "$out" | grep -c "^VIOLATION")
  known=$(echo "$out" | grep -c "^KNOWN-FINDING")
  echo "C$i seed=$SEED exit=$rc violations=$viol known=$known wall=$((end-start))s $(echo "$out" | grep -E "^C$i tier" | sed 's/.*evaluations=/evaluations=/' | cut -c1-60)"
done
