#!/usr/bin/env python3
"""Seeded property-breaking changes.

  tools/seed.py confirm <pid> <n> <name>   confirm /tmp/mut/<pid>/patch<n>.diff in a scratch worktree of /repo HEAD
                                           (demo passes without, fails with; test suite passes with) and store it as
                                           /verif/seeded/<name>/ {patch.diff, demo.py, meta.json}
  tools/seed.py run <name> [tier] [pid]    apply seeded/<name>/patch.diff to /repo, run the check, undo
  tools/seed.py runall [tier]              run every seeded change against the check of its property
"""
import json
import os
import shutil
import subprocess
import sys

VERIF = os.path.dirname(os.path.dirname(os.path.abspath(__file__)))
SEEDED = os.path.join(VERIF, "seeded")
PY = "/venv/bin/python"


def sh(cmd, cwd=None, env=None, timeout=3600):
    e = dict(os.environ)
    if env:
        e.update(env)
    p = subprocess.run(cmd, shell=True, cwd=cwd, env=e, stdout=subprocess.PIPE, stderr=subprocess.STDOUT,
                       text=True, timeout=timeout)
    return p.returncode, p.stdout


def confirm(pid, n, name):
    src = os.environ.get("MUT_DIR", "/tmp/mut") + "/%s" % pid
    patch = os.path.join(src, "patch%s.diff" % n)
    demo = os.path.join(src, "demo%s.py" % n)
    wt = "/tmp/wt/confirm_%s" % name
    sh("git -C /repo worktree remove --force %s" % wt)
    rc, out = sh("git -C /repo worktree add -q --detach %s HEAD" % wt)
    assert rc == 0, out
    try:
        env = {"PYTHONPATH": wt, "PYTHONDONTWRITEBYTECODE": "1"}
        rc0, out0 = sh("%s %s" % (PY, demo), cwd=wt, env=env)
        rc, out = sh("git apply %s" % patch, cwd=wt)
        if rc != 0:
            rc, out = sh("patch -p1 --no-backup-if-mismatch < %s" % patch, cwd=wt)
            if rc != 0:
                print("PATCH DOES NOT APPLY on HEAD:", out[-500:])
                return 1
        rc1, out1 = sh("%s %s" % (PY, demo), cwd=wt, env=env)
        rct, outt = sh("%s -m pytest -q -p no:cacheprovider --timeout=900 -x 2>&1 | tail -3" % PY, cwd=wt, env=env)
        summary = [l for l in outt.splitlines() if "passed" in l or "failed" in l or "error" in l]
        ok = rc0 == 0 and rc1 != 0 and summary and "2104 passed" in summary[-1] and " failed" not in summary[-1] and " error" not in summary[-1]
        print("%s: demo clean rc=%d, demo patched rc=%d, tests: %s => %s" % (name, rc0, rc1, summary[-1:] , "CONFIRMED" if ok else "REJECTED"))
        if not ok:
            print(out0[-300:], out1[-300:])
            return 1
        d = os.path.join(SEEDED, name)
        os.makedirs(d, exist_ok=True)
        rc, diff = sh("git diff", cwd=wt)
        open(os.path.join(d, "patch.diff"), "w").write(diff)
        shutil.copy(demo, os.path.join(d, "demo.py"))
        notes = ""
        if os.path.exists(os.path.join(src, "notes.md")):
            notes = open(os.path.join(src, "notes.md")).read()
        open(os.path.join(d, "notes.md"), "w").write(notes)
        meta = {"property": pid, "source": "independent sub-agent given only the property text and a scratch worktree",
                "needs_to_manifest": "see notes.md (mutation %s)" % n,
                "confirmed": {"base_commit": sh("git -C /repo rev-parse --short HEAD")[1].strip(),
                              "demo_on_clean_tree": "exit %d" % rc0, "demo_with_patch": "exit %d: %s" % (rc1, out1.strip()[-300:]),
                              "test_suite_with_patch": summary[-1]},
                "detected_by": {}}
        json.dump(meta, open(os.path.join(d, "meta.json"), "w"), indent=1)
        return 0
    finally:
        sh("git -C /repo worktree remove --force %s" % wt)


def run(name, tier="quick", pid=None):
    d = os.path.join(SEEDED, name)
    meta = json.load(open(os.path.join(d, "meta.json")))
    pid = pid or meta["property"]
    wt = os.environ.get("SEED_WT")
    if wt:
        # run against a scratch worktree of /repo's HEAD instead of /repo itself (used while other runs read /repo)
        if not os.path.isdir(wt):
            rc, out = sh("git -C /repo worktree add -q --detach %s HEAD" % wt)
            assert rc == 0, out
        sh("git -C %s checkout -q --detach %s && git -C %s checkout -- ." % (wt, sh("git -C /repo rev-parse HEAD")[1].strip(), wt))
        target, env = wt, {"VERIF_OUT": "/tmp/seedout_wt", "ROPE_REPO": wt}
    else:
        target, env = "/repo", {"VERIF_OUT": "/tmp/seedout"}
    rc, out = sh("git -C %s status --porcelain --untracked-files=no" % target)
    assert out.strip() == "", "%s has local modifications: %s" % (target, out)
    rc, out = sh("git -C %s apply %s" % (target, os.path.join(d, "patch.diff")))
    if rc != 0:
        print(name, "PATCH DOES NOT APPLY", out[-300:])
        return None
    try:
        rc, out = sh("./check %s --tier %s" % (pid, tier), cwd=VERIF, env=env)
    finally:
        sh("git -C %s checkout -- ." % target)
    viol = [l for l in out.splitlines() if l.startswith("VIOLATION")]
    head = [l for l in out.splitlines() if l.startswith(pid + " tier")]
    print("%-28s %s %s exit=%d  %s  %s" % (name, pid, tier, rc, "DETECTED" if rc == 1 and viol else "MISSED" if rc == 0 else "HARNESS?",
                                          (head[0][-40:] if head else "")))
    if rc not in (0, 1) or (rc == 1 and not viol):
        print(out[-1500:])
    return rc == 1 and bool(viol), out


def main():
    a = sys.argv[1:]
    if a[0] == "confirm":
        sys.exit(confirm(a[1], a[2], a[3]))
    if a[0] == "run":
        r = run(a[1], *(a[2:]))
        if r and "-v" in a:
            print(r[1][-3000:])
        elif r and not r[0]:
            pass
    if a[0] == "runall":
        tier = a[1] if len(a) > 1 else "quick"
        only = a[2] if len(a) > 2 else None
        res = {}
        for name in sorted(os.listdir(SEEDED)):
            if not os.path.exists(os.path.join(SEEDED, name, "meta.json")):
                continue
            if only and only not in name:
                continue
            r = run(name, tier)
            res[name] = bool(r and r[0])
            mp = os.path.join(SEEDED, name, "meta.json")
            meta = json.load(open(mp))
            head = sh("git -C /repo rev-parse --short HEAD")[1].strip()
            meta.setdefault("detected_by", {})["%s %s" % (meta["property"], tier)] = (
                "DETECTED" if res[name] else "PATCH DOES NOT APPLY" if r is None else "MISSED") + " (repo %s)" % head
            json.dump(meta, open(mp, "w"), indent=1)
        print("detected %d of %d" % (sum(res.values()), len(res)))


if __name__ == "__main__":
    main()
