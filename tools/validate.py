#!/opt/veriftools/pyvenv/bin/python
"""Validate MANIFEST.json and evidence/*.json against the harness schemas (python3-vt has jsonschema)."""
import json, glob, sys, jsonschema
ok = True
m = json.load(open('/verif/MANIFEST.json'))
jsonschema.validate(m, json.load(open('/root/.vp/MANIFEST.schema.json')))
es = json.load(open('/root/.vp/EVIDENCE.schema.json'))
for f in sorted(glob.glob('/verif/evidence/*.json')):
    try:
        jsonschema.validate(json.load(open(f)), es)
    except Exception as e:
        ok = False
        print('INVALID', f, str(e)[:300])
claimed = {c['property_id'] for c in m['checks']}
na = {c['property_id'] for c in m.get('not_applicable', [])}
allp = {json.loads(l)['id'] for l in open('/verif/properties.jsonl')}
assert claimed | na == allp and not (claimed & na), (claimed, na)
print('manifest ok; evidence', 'ok' if ok else 'INVALID')
sys.exit(0 if ok else 1)
